"""C13 -- every association ending terminates the provider and releases the connection.

Decided: no unguarded blocking read; the exit rows (Evt17, Evt18) exist and lead to idle;
idle => transport released and user told; the stop protocol (flag set on all exits of run,
loop re-reads the flag, Association.kill reached on every exit of the association
life-cycle functions, its wait loop bounded); run leaves the transport closed on every exit.
Not decided: wall-clock bounds, OS-level socket behaviour."""
from __future__ import annotations

import ast

from ..flow import Flow, attr_chain
from ..fsm_model import FsmModel, cell_context, summarize_outcome
from ..oracles import ps3_8
from ..provider_model import (ProviderModel, PRODUCERS, blocking_problems, make_raises,
                              pdu_decode_raise_set, parse_cond)
from ..srcmodel import AnalysisError
from ..sym import SymClient, empty_state
from .c04 import cell_key
from .c12 import escape_analysis, _says_socket_absent


def assoc_event(call, callee, client, state):
    last = callee.rsplit('.', 1)[-1]
    if last in ('kill', 'stop', 'release', 'abort', 'request', 'accept', 'reject', '_establish', '_loop', 'sleep', 'wait'):
        return last
    if callee.endswith('dul.send'):
        return 'dul.send'
    if callee.endswith('dul.receive'):
        return 'dul.receive'
    return None


def run(repo, rep):
    from ..pitfalls import memo_rule as _memo_rule
    _memo_rule(repo, rep, 'C13', 'C13.Z1')
    from ..pitfalls import log_rule as _log_rule
    _log_rule(repo, rep, 'C13', 'C13.Z2')
    from ..api_pitfalls import truth_rule as _truth_rule
    _truth_rule(repo, rep, 'C13', 'C13.Z4')
    from ..api_pitfalls import attribute_rule as _attribute_rule
    _attribute_rule(repo, rep, 'C13', 'C13.Z5')
    from ..api_pitfalls import pairing_rule as _pairing_rule
    _pairing_rule(repo, rep, 'C13', 'C13.Z6')
    model = FsmModel(repo)
    pm = ProviderModel(repo, model)
    rep.trust('PS3.8 Table 9-10 rows Evt17/Evt18 as transcribed; CPython semantics of threading.Event, select, socket')
    rep.assume('each loop iteration is bounded when no blocking call lacks a timeout (K1); TCP sendall is assumed to make progress')
    rep.rule('C13.K6', 'every provider has its own ARTIM timer, event queue and stop flag: they are created in the constructor, '
             'not taken from a default argument or a class attribute (one association stopping its timer must not cancel '
             'another\'s wait)', 1)
    rep.rule('C13.K1', 'no blocking read without a timeout on any path of the provider loop', 1)
    rep.rule('C13.K2', 'Evt17 is defined for every state but Sta1 and leads to Sta1; Evt18 is defined for Sta2 and Sta13 and '
             'leads to Sta1', 14)
    rep.rule('C13.K3', 'every transition out of a state in which the local user takes part in the association (Sta3..Sta12) '
             'into Sta1/Sta13 tells the user or is initiated by the user; entering Sta1 releases the transport', 40)
    rep.rule('C13.K4', 'stop protocol: run sets the stopped flag on all exits and re-reads the stop request every iteration; '
             'Association.kill is reached on every exit of handle() and of request_association(); its wait is bounded', 4)
    rep.rule('C13.K7', 'the end of the stream is always noticed: on every path on which recv() returned, its result is tested, and '
             'an empty result queues Evt17 and releases the transport (a test on anything else -- the reassembly buffer, a '
             'length -- misses a close that arrives inside a PDU)', 1)
    rep.rule('C13.K5', 'every exit of run leaves the transport closed (closed explicitly, or proven absent)', 1)
    rep.rule('C13.K8', 'the ARTIM timer does what the actions that arm it rely on: start() and restart() leave it running from '
             'now whatever its state was, stop() clears it, and expiry is reported exactly when it is running and the limit has '
             'passed -- so every wait for the peer that the state machine bounds by ARTIM (C04/C14 decide which) ends (same '
             'analysis as C05.G4)', 4)
    from .c05 import check_timer
    check_timer(repo, pm, rep, rule='C13.K8')
    rep.rule('C13.K9', 'every wait for the peer is bounded by ARTIM: each cell that enters Sta2 or Sta13 leaves the timer running (and it '
             'runs in no other state), on every path of its action -- a branch that answers and goes to Sta13 without starting the timer '
             'waits for the peer\'s close for ever (same analysis as C05.G5a)', 100)
    from .c05 import check_invariants
    check_invariants(repo, model, rep, only_timer_rule='C13.K9')

    decode_set = pdu_decode_raise_set(repo)
    # K1
    finals, blog = [], []
    for name in PRODUCERS:
        rep.analysed(pm.method(name))
        f_, l_ = pm.paths_and_log(name, raises_of=make_raises(repo, decode_set))
        finals.extend(f_)
        blog.extend(l_)
    probs = blocking_problems(finals, blog)
    rep.check(not probs, 'C13.K1', 'dulprovider:DULServiceProvider:blocking-calls', pm.cls.loc(),
              'all socket reads / polls / queue gets on %d producer paths are bounded by a timeout' % len(finals), '; '.join(probs))

    # K7
    from ..provider_model import appended_event, cond_says_recv_empty
    p7 = []
    n_recv = 0

    def flip(c_):
        return ('-' + c_[1:]) if c_.startswith('+') else ('+' + c_[1:]) if c_.startswith('-') else c_
    for s_, how in finals:
        recvs = [i for i, e_ in enumerate(s_.trail) if e_.kind == 'recv']
        if not recvs or how.startswith('raise'):
            continue
        i0 = recvs[-1]
        after = s_.trail[i0 + 1:]
        # the conditions that were added after the read
        base = set(s_.trail[i0].conds)
        later = [c_ for c_ in s_.conds if c_ not in base]
        if any(c_.startswith('exc:') for c_ in later):
            continue       # the read failed: K-rules on Evt17 producers cover it (C05.G3)
        n_recv += 1
        empty = any(cond_says_recv_empty(c_) for c_ in later)
        nonempty = any(cond_says_recv_empty(flip(c_)) for c_ in later)
        if empty and nonempty:
            continue       # contradictory conditions (non-empty and of length 0): not a path the code can take
        if not empty and not nonempty:
            p7.append('after recv() at line %d a path returns without testing what was read for end of stream [%s]'
                      % (s_.trail[i0].line, ' '.join(later) or 'no test'))
        elif empty:
            evs = [appended_event(e_, model, repo, pm.mod) for e_ in after if e_.kind == 'append']
            if 'EVT_17' not in evs:
                p7.append('recv() at line %d returned nothing (peer closed) but Evt17 is not queued' % s_.trail[i0].line)
            if not any(e_.kind == 'close' for e_ in after):
                p7.append('recv() at line %d returned nothing (peer closed) but the socket is not closed' % s_.trail[i0].line)
    if n_recv == 0:
        raise AnalysisError('no producer path reads from the socket')
    rep.check(not p7, 'C13.K7', 'dulprovider:DULServiceProvider._check_network:end-of-stream', pm.method('_check_network').loc(),
              'the bytes returned by recv() are tested on %d path(s); empty -> Evt17 + close' % n_recv, '; '.join(sorted(set(p7))))

    # K2
    for (e, s), aid in sorted(ps3_8.TABLE.items()):
        if e not in (17, 18):
            continue
        meth = model.table.get(('EVT_%d' % e, 'STA_%d' % s))
        if meth is None:
            rep.bad('C13.K2', cell_key(e, s), model.sm.loc(), 'exit cell (Evt%d, Sta%d) missing: the provider can never leave Sta%d on %s'
                    % (e, s, s, 'transport close' if e == 17 else 'ARTIM expiry'))
            continue
        prim, sock = cell_context(e, s)
        nexts = {o.next for o in model.summarize(meth, prim, sock) if o.kind == 'return'}
        rep.check(nexts == {'STA_1'}, 'C13.K2', cell_key(e, s), model.sm.find_method(meth).loc(),
                  '%s(): leads to Sta1' % meth, '%s(): next state %s, must be Sta1' % (meth, sorted(nexts)))

    # K3
    for (e, s), aid in sorted(ps3_8.TABLE.items()):
        meth = model.table.get(('EVT_%d' % e, 'STA_%d' % s))
        if meth is None:
            continue
        prim, sock = cell_context(e, s)
        problems = []
        relevant = False
        for o in model.summarize(meth, prim, sock):
            if o.kind != 'return' or o.next not in ('STA_1', 'STA_13'):
                continue
            summ = summarize_outcome(o)
            if o.next == 'STA_1':
                relevant = True
                if o.sock_after != 'absent':
                    problems.append('%s(): enters Sta1 with the transport still held' % meth)
            if s in ps3_8.USER_INVOLVED_STATES:
                relevant = True
                user_initiated = ps3_8.EVENTS[e][0] == 'primitive'
                if not summ['indicate'] and not user_initiated:
                    problems.append('%s(): the association ends (-> %s) without any indication to the local user' % (meth, o.next))
        if relevant:
            rep.check(not problems, 'C13.K3', cell_key(e, s), model.sm.find_method(meth).loc(),
                      '%s(): user told / transport released as required' % meth, '; '.join(sorted(set(problems))))

    # K4a / K5: run
    runf = pm.method('run')
    rep.analysed(runf)
    c, o, _, _, _ = escape_analysis(repo, model, pm, generic_action_exc=True)
    fin = c.final_states(o)
    p4, p5 = [], []
    for s, how in fin:
        kinds = [e.kind for e in s.trail]
        if 'killed_set' not in kinds:
            p4.append('exit (%s) without setting the stopped flag: kill() would wait forever' % how)
        if 'close' not in kinds and not any(_says_socket_absent(cn) for cn in s.conds):
            p5.append('run can end (%s) with the transport still open: neither closed on this path nor proven absent'
                      % ('stop flag seen' if not how.startswith('raise') and not any(cn.startswith('exc:') for cn in s.conds)
                         else 'after an exception'))
    loop = next((n for n in ast.walk(runf.node) if isinstance(n, ast.While)), None)
    if loop is None or 'is_killed' not in ast.unparse(loop.test):
        p4.append('the loop condition does not re-read the stop request')
    rep.check(not p4, 'C13.K4', 'dulprovider:DULServiceProvider.run:stopped-flag', runf.loc(),
              'flag set on all %d exit paths; loop tests is_killed' % len(fin), '; '.join(sorted(set(p4))))
    rep.check(not p5, 'C13.K5', 'dulprovider:DULServiceProvider.run:transport-on-exit', runf.loc(),
              'transport closed or absent on all %d exit paths' % len(fin), '; '.join(sorted(set(p5))))

    # K4b: Association.kill reached on every exit
    hier = pm.hier
    acc = repo.cls('asceprovider', 'AssociationAcceptor')
    base = repo.cls('asceprovider', 'Association')

    def any_raises(node, client, state):
        out = []
        for call in [n for n in ast.walk(node) if isinstance(n, ast.Call)]:
            t = client.term(call.func, state, heap_ext=False)
            last = t.rsplit('.', 1)[-1]
            if last in ('_establish', '_loop', 'request', 'release', 'abort', 'receive', 'send', 'accept'):
                out.append('Exception')
        return out
    hf = acc.find_method('handle')
    if hf is None:
        raise AnalysisError('AssociationAcceptor.handle not found')
    rep.analysed(hf)
    hc = SymClient(repo, hf, event_of=assoc_event, hierarchy=hier, raises_of=any_raises)
    hfin = hc.final_states(hc.run(empty_state()))
    bad = ['exit (%s) without kill()' % how for s, how in hfin if 'kill' not in [e.kind for e in s.trail]]
    rep.check(not bad, 'C13.K4', 'asceprovider:AssociationAcceptor.handle:kill-on-exit', hf.loc(),
              'kill() reached on all %d exits' % len(hfin), '; '.join(sorted(set(bad))))

    ra = repo.cls('applicationentity', 'AEBase').find_method('request_association')
    if ra is None:
        raise AnalysisError('AEBase.request_association not found')
    rep.analysed(ra)
    req = repo.cls('asceprovider', 'AssociationRequester')

    def inline(fi):
        return fi.cls is not None and fi.cls.key in (req.key, base.key) and fi.name in ('release', 'abort')

    def ra_raises(node, client, state):
        out = []
        for n in ast.walk(node):
            if isinstance(n, ast.Yield):
                out.append('Exception')  # the body of the with statement may raise at the yield
            if isinstance(n, ast.Call):
                t = client.term(n.func, state, heap_ext=False)
                if t.rsplit('.', 1)[-1] in ('request', 'receive'):
                    out.append('Exception')
        return out
    rc = SymClient(repo, ra, event_of=assoc_event, hierarchy=hier, raises_of=ra_raises, inline=inline)
    rfin = rc.final_states(rc.run(empty_state()))
    bad = []
    n_rel = 0
    for s, how in rfin:
        kinds = [e.kind for e in s.trail]
        created = any(cn == '+NEW_AssociationRequester_L%d' % 0 for cn in s.conds) or any(e.kind == 'request' for e in s.trail)
        if 'request' in kinds and 'kill' not in kinds:
            bad.append('exit (%s) after request() without kill()' % how)
        if 'request' in kinds:
            n_rel += 1
    if n_rel == 0:
        raise AnalysisError('request_association: no path calls request()')
    rep.check(not bad, 'C13.K4', 'applicationentity:AEBase.request_association:kill-on-exit', ra.loc(),
              'kill() reached on all %d exits that created an association' % n_rel, '; '.join(sorted(set(bad))))
    kf = base.find_method('kill')
    rep.analysed(kf)
    loops = [n for n in ast.walk(kf.node) if isinstance(n, (ast.While, ast.For))]
    def counted_while(w: ast.While) -> bool:
        """``while i < N:`` whose body increments i by a positive constant on every pass and assigns it nowhere else"""
        t = w.test
        if not (isinstance(t, ast.Compare) and len(t.ops) == 1):
            return False
        l, r = t.left, t.comparators[0]
        if isinstance(l, ast.Name) and isinstance(t.ops[0], (ast.Lt, ast.LtE, ast.NotEq)) and repo.try_fold(r, kf.module, kf.cls) is not None:
            name = l.id
        elif isinstance(r, ast.Name) and isinstance(t.ops[0], (ast.Gt, ast.GtE, ast.NotEq)) and repo.try_fold(l, kf.module, kf.cls) is not None:
            name = r.id
        else:
            return False
        incs = [st for st in w.body if isinstance(st, ast.AugAssign) and isinstance(st.target, ast.Name) and st.target.id == name
                and isinstance(st.op, ast.Add) and isinstance(repo.try_fold(st.value, kf.module, kf.cls), int)
                and repo.try_fold(st.value, kf.module, kf.cls) > 0]
        writes = [n for n in ast.walk(w) if isinstance(n, ast.Name) and n.id == name and isinstance(n.ctx, ast.Store)]
        # the increment must be reached on every pass: no continue before it
        idx = w.body.index(incs[0]) if incs else -1
        early = any(isinstance(n, ast.Continue) for st in w.body[:max(idx, 0)] for n in ast.walk(st))
        return len(incs) == 1 and len(writes) == 1 and not early
    unbounded = [n for n in loops if isinstance(n, ast.While) and not counted_while(n)]
    calls_dul_kill = any(isinstance(n, ast.Call) and attr_chain(n.func) == ('self', 'dul', 'kill') for n in ast.walk(kf.node))
    rep.check(not unbounded and calls_dul_kill, 'C13.K4', 'asceprovider:Association.kill:bounded-wait', kf.loc(),
              'grace loop is a bounded for-loop and the provider is then told to stop',
              ('unbounded while loop in kill(); ' if unbounded else '') + ('' if calls_dul_kill else 'dul.kill() never called'))

    # ---------------------------------------------------------------- K6: per-provider timer / queues / flag
    from ..pitfalls import shared_default_objects
    from ..sym import is_token
    init = pm.method('__init__')
    rep.analysed(init)
    ic = SymClient(repo, init, event_of=lambda *a: None, hierarchy=pm.hier)
    io = ic.run(empty_state())
    p6 = []
    for s_ in [x for x, _r in io.ret] + list(io.fall):
        t = s_.field('EXT:self', 'timer')
        if t is None or not (is_token(t) and 'Timer' in t):
            p6.append('self.timer is %s, not a Timer created in the constructor' % t)
        for attr in ('event', 'to_service_user', 'from_service_user', '_is_killed'):
            v = s_.field('EXT:self', attr)
            if v is None:
                continue
            if v in init.params or not v.endswith(')'):
                p6.append('self.%s is %s, not an object created in the constructor' % (attr, v))
    p6 += [x for x in shared_default_objects(repo) if x.startswith('dulprovider:') or x.startswith('fsm:')]
    rep.check(not p6, 'C13.K6', 'dulprovider:DULServiceProvider.__init__:own-timer', init.loc(),
              'timer, queues and stop flag are created per provider', '; '.join(sorted(set(p6))))
