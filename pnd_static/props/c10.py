"""C10 -- the negotiated maximum PDU length is honoured in both directions, including 0.

Decided: zero-safe adoption of the peer's value on both sides (sibling cross-check), the
announced value, the limit applied on every send (C06.S7), zero-safe use in the fragmenters
and in the provider's socket read.  Not decided: peers announcing 1..6 (cannot carry a byte)."""
from __future__ import annotations

import ast

from ..fsm_model import exc_hierarchy
from ..srcmodel import AnalysisError, norm
from ..sym import SymClient, empty_state, is_token, token_class
from .c06 import ev_kind as c06_ev


def ev(call, callee, client, state):
    last = callee.rsplit('.', 1)[-1]
    if last == 'MaximumLengthSubItem':
        return None
    if callee.endswith('dul.send'):
        return 'dul.send'
    return None


def stores(t):
    return t == 'self.max_pdu_length' or t.endswith('.maximum_length_received')


def analyse_adoption(repo, hier, cls, meth, peer_marker='maximum_length_received'):
    f = repo.cls('asceprovider', cls).find_method(meth)
    if f is None:
        raise AnalysisError('%s.%s not found' % (cls, meth))
    c = SymClient(repo, f, event_of=ev, hierarchy=hier, store_event=stores)
    c.run(empty_state())
    adopts = [(e, s) for e, s in c.log if e.kind == 'store' and e.callee == 'self.max_pdu_length']
    return f, c, adopts


def guard_facts(conds, peer):
    """-> (peer known non-zero, current > peer or current == 0 established)"""
    nz = False
    bigger = False
    zero_cur = False
    for cn in conds:
        pol, txt = cn[0], cn[1:]
        if pol == '+' and txt in (peer, '%s != 0' % peer, '%s > 0' % peer, '0 != %s' % peer, '0 < %s' % peer):
            nz = True
        if pol == '-' and txt in ('%s == 0' % peer, 'not %s' % peer, '0 == %s' % peer):
            nz = True
        if pol == '+' and txt in ('self.max_pdu_length > %s' % peer, '%s < self.max_pdu_length' % peer):
            bigger = True
        if pol == '-' and txt in ('self.max_pdu_length <= %s' % peer, '%s >= self.max_pdu_length' % peer):
            bigger = True
        if pol == '-' and txt in ('self.max_pdu_length',) or pol == '+' and txt in ('not self.max_pdu_length', 'self.max_pdu_length == 0'):
            zero_cur = True
    return nz, bigger, zero_cur


OWN = 'self.max_pdu_length'
# every order type of (own, peer) with 0 = "no limit" on either side: the adoption logic touches the two values through
# truth tests, comparisons and min / max only, so its result on these points is its result everywhere
ADOPTION_POINTS = [(o_, p_) for o_ in (0, 4096, 16384) for p_ in (0, 1024, 4096, 16384, 65536)]


def effective_limit(own: int, peer: int) -> int:
    """PS3.8 D.1: what the sender has to respect is the smaller of the two maxima, 0 meaning none"""
    if peer == 0:
        return own
    return peer if own == 0 else min(own, peer)


def peer_term_of(texts) -> str:
    """the longest attribute chain ending in .maximum_length_received mentioned in the given terms"""
    best = ''
    for t in texts:
        try:
            e = ast.parse(t[1:] if t[:1] in '+-' else t, mode='eval').body
        except SyntaxError:
            continue
        for n in ast.walk(e):
            if isinstance(n, ast.Attribute) and n.attr == 'maximum_length_received':
                u = ast.unparse(n)
                if len(u) > len(best):
                    best = u
    return best


def tabulate_limit(events, peer: str, points=ADOPTION_POINTS):
    """events: [(value term, path conditions)] of the stores that decide a limit (the adoption, or the echo).  For each point of
    (own, peer) the value stored on the paths whose conditions about the two limits hold there -> {point: set of results};
    a result is an int, ('raises', exception name) or ('kept',) when no store applies.  None when a term is outside what
    arith.eval_value understands."""
    from ..arith import CannotEvaluate, eval_value
    out = {}
    for own, pv in points:
        env = {OWN: own, peer: pv}
        res = set()
        for term, conds in events:
            applies = True
            for cn in conds:
                if cn.startswith('exc:') or cn[:1] not in '+-':
                    continue
                if OWN not in cn and peer not in cn:
                    continue
                try:
                    v = eval_value(ast.parse(cn[1:], mode='eval').body, env)
                except CannotEvaluate:
                    return None
                except SyntaxError:
                    return None
                except Exception:
                    applies = False       # the test itself raises here: another path's business
                    break
                if bool(v) != (cn[0] == '+'):
                    applies = False
                    break
            if not applies:
                continue
            try:
                r = eval_value(ast.parse(term, mode='eval').body, env)
            except (CannotEvaluate, SyntaxError):
                return None
            except Exception as exc:
                res.add(('raises', type(exc).__name__))
                continue
            if not isinstance(r, int) or isinstance(r, bool):
                return None
            res.add(r)
        out[(own, pv)] = res or {('kept',)}
    return out


def limit_selection_problems(repo, hier):
    """Association.__init__ (helpers included): the limit the association starts with is the value it was given or the entity's
    configured one, chosen by ``is None`` tests -- never by truth, because 0 is a value (PS3.8 D.1: no limit)
    -> (problems, number of stores examined)"""
    from ..provider_model import parse_cond
    init = repo.cls('asceprovider', 'Association').find_method('__init__')
    if init is None:
        raise AnalysisError('Association.__init__ not found')
    c = SymClient(repo, init, event_of=lambda *a: None, hierarchy=hier, inline=repo.is_helper,
                  store_event=lambda t: t == 'self.max_pdu_length')
    c.run(empty_state())
    stores = [(e, s) for e, s in c.log if e.kind == 'store' and e.callee == 'self.max_pdu_length']
    probs = []

    def limit_valued(txt: str) -> bool:
        return 'max_pdu_length' in txt or 'MAX_PDU' in txt.upper() and 'DEFAULT' not in txt.upper()
    for e, s in stores:
        term = e.args[0]
        try:
            te = ast.parse(term, mode='eval').body
        except SyntaxError:
            te = None
        for n in ast.walk(te) if te is not None else []:
            if isinstance(n, ast.BoolOp) and any(limit_valued(norm(v)) for v in n.values[:-1]):
                probs.append('the association\'s maximum PDU length is %s: a given / configured 0 ("no limit") counts as "not given" and is '
                             'replaced by the next operand' % term)
        for cn in e.conds:
            pol, ce = parse_cond(cn)
            if ce is None:
                continue
            # a bare truth test of a limit (``if max_pdu_length:`` / ``if not max_pdu_length:``) that decides which value is kept
            if isinstance(ce, (ast.Name, ast.Attribute)) and limit_valued(norm(ce)):
                probs.append('the value kept as the association\'s maximum PDU length is chosen by the truth of %s: 0 ("no limit") is '
                             'treated like a missing value' % norm(ce))
    if not stores:
        raise AnalysisError('%s: no store to self.max_pdu_length found' % init.loc())
    return sorted(set(probs)), len(stores)


LIMIT_SAMPLES = (0, 7, 8, 9, 128, 16384, 65536, 0xFFFFFFFF)


def limit_setter_problems(repo):
    """-> (problems, number of ``max_pdu_length`` setters in asceprovider / dulprovider classes)"""
    from ..peval import CannotEval, PEval, Raised, Scope, SelfObj, _Return
    from ..srcmodel import body_without_docstring
    probs = []
    n = 0
    for mname in ('asceprovider', 'dulprovider'):
        for c in repo.module(mname).classes.values():
            f = c.setters.get('max_pdu_length')
            if f is None:
                continue
            n += 1
            for v in LIMIT_SAMPLES:
                pe = PEval(repo)
                so = SelfObj(c)
                try:
                    env = pe.bind_params(f.node, [v], {}, so)
                    try:
                        pe.exec_block(body_without_docstring(f.node), Scope(f.module, c, env, so))
                    except _Return:
                        pass
                except Raised as ex:
                    probs.append('%s: setting max_pdu_length = %d raises %s' % (f.loc(), v, ex.exc))
                    continue
                except CannotEval as ex:
                    raise AnalysisError('%s: the setter of max_pdu_length cannot be evaluated for %d: %s' % (f.loc(), v, ex))
                stored = [x for x in so.attrs.values() if isinstance(x, int) and not isinstance(x, bool)]
                if len(so.attrs) != 1 or len(stored) != 1:
                    raise AnalysisError('%s: the setter of max_pdu_length stores %s' % (f.loc(), sorted(so.attrs)))
                if stored[0] != v:
                    probs.append('%s: max_pdu_length = %d is stored as %d: the limit in force is not the limit that was negotiated'
                                 % (f.loc(), v, stored[0]))
    return sorted(set(probs))[:4], n


def run(repo, rep):
    from ..pitfalls import memo_rule as _memo_rule
    _memo_rule(repo, rep, 'C10', 'C10.Z1')
    from ..pitfalls import log_rule as _log_rule
    _log_rule(repo, rep, 'C10', 'C10.Z2')
    from ..api_pitfalls import truth_rule as _truth_rule
    _truth_rule(repo, rep, 'C10', 'C10.Z4')
    from ..api_pitfalls import attribute_rule as _attribute_rule
    _attribute_rule(repo, rep, 'C10', 'C10.Z5')
    hier = exc_hierarchy(repo)
    rep.trust('PS3.8 Annex D.1: maximum length 0 means no limit; the value bounds the length field of P-DATA-TF PDUs')
    rep.rule('C10.X1', 'every adoption of the peer\'s announced maximum is conditional on the peer value being non-zero and on '
             '(own limit larger, or own limit 0 = none); acceptor and requestor agree', 2)
    rep.rule('C10.X2', 'the requestor announces its own limit before adopting the peer\'s; the acceptor echoes the limit it will '
             'itself honour, which is its configured one or less', 2)
    rep.rule('C10.X3', 'the limit in force is applied on every send (single call site of encode, see C06.S7)', 1)
    rep.rule('C10.X5', 'the fragment width term, evaluated at the boundary values of the limit (0 = none, overhead+1 = the smallest '
             'that can carry a payload byte, ..., 2^32-1), is at least 1 and never exceeds limit - overhead: both sides stay able '
             'to send for every pair of announced values', 2)
    rep.rule('C10.X6', 'a message of any size ends with exactly one last fragment: chunks tile the encoded bytes and flag the '
             'final chunk for every length, including exact multiples of the fragment width (same analysis as C06.S2/S3)', 1)
    rep.rule('C10.X4', 'a limit of 0 reaching the fragmenters or the provider\'s socket read is treated as "no limit", not as a size', 3)

    rep.rule('C10.X7', 'the announced maximum travels as the unsigned 32-bit big-endian field of the Maximum Length sub-item in both '
             'directions, so every value up to 2^32-1 arrives as announced (same analysis as C02.L1-L3, C01.O1-O4 on that class)', 1)
    from ..codec_rules import check_roundtrip, check_wire
    from ..layout import LayoutExtractor
    lx = LayoutExtractor(repo)
    check_wire(lx, rep, prefix='C10', only=('MaximumLengthSubItem',), rule_map={'L1': 'X7', 'L2': 'X7', 'L3': 'X7', 'L5': 'X7', 'L6': 'X7'})

    # X11: what the provider refuses on input is what this side announced
    rep.rule('C10.X11', 'each side announces a value it is itself prepared to receive: where an association tells its upper-layer provider '
             'the largest P-DATA-TF it accepts (a store into ``<dul>.max_pdu_length``), the value is the one carried by the Maximum Length '
             'sub-item this side sends -- not the limit negotiated for the other direction', 1)
    p11, n11 = [], 0
    for cname_, mname_ in (('AssociationRequester', '_request'), ('AssociationAcceptor', 'accept')):
        f11 = repo.cls('asceprovider', cname_).find_method(mname_)
        if f11 is None:
            continue
        c11_ = SymClient(repo, f11, event_of=lambda *a: None, hierarchy=hier, inline=repo.is_helper,
                         store_event=lambda t: t.endswith('dul.max_pdu_length'))
        for s_, how_ in c11_.final_states(c11_.run(empty_state())):
            if how_.startswith('raise'):
                continue
            st_ = [e_ for e_ in s_.trail if e_.kind == 'store']
            if not st_:
                continue
            n11 += 1
            announced = {v_ for t_, f_, v_ in s_.heap if f_ in ('@maximum_length_received', 'maximum_length_received')}
            got = st_[-1].args[0]
            if got.endswith('.maximum_length_received'):
                # the attribute of a sub-item built on this path: what its constructor was given
                tok_ = got[:-len('.maximum_length_received')]
                for t_, f_, v_ in s_.heap:
                    if t_ == tok_ and f_ == '@maximum_length_received':
                        got = v_
            if announced and got not in announced:
                p11.append('%s: the provider is told to accept P-DATA-TF up to %s, the Maximum Length sub-item sent carries %s [%s]'
                           % (f11.loc(), got[:80], ' / '.join(sorted(announced))[:80], ' '.join(c_ for c_ in s_.conds if 'max' in c_)[:160]))
    rep.notes['incoming_limit_stores'] = n11
    rep.check(not p11, 'C10.X11', 'asceprovider:incoming-limit', repo.module('asceprovider').relpath,
              '%d path(s) tell the provider an incoming limit, each the announced value' % n11, '; '.join(sorted(set(p11))[:3]))

    sp_, sn_ = limit_setter_problems(repo)
    rep.rule('C10.X10', 'the limit in force is the limit that was set: when ``max_pdu_length`` of an association is a property with a '
             'setter, the setter (evaluated by constant propagation, peval.py) stores 0 and every value from 7 on -- the smallest '
             'P-DATA-TF that carries a byte of payload: item length 4 + context id 1 + control header 1 + 1 -- unchanged and refuses none', 1)
    rep.notes['limit_setters'] = sn_
    rep.check(not sp_, 'C10.X10', 'asceprovider:Association.max_pdu_length:setter', repo.module('asceprovider').relpath,
              '%d setter(s) of max_pdu_length, each stores the legal values as given' % sn_, '; '.join(sp_))

    rep.rule('C10.X8', 'a P-DATA-TF that is not built from a fragment of the fragmenters (a whole message sent in one PDV) is built only '
             'on a path that bounds the message by limit - overhead, so its length never exceeds the peer\'s maximum', 1)
    from .c06 import fast_path_problems
    fp_, nfp_ = fast_path_problems(repo, hier)
    rep.check(not fp_, 'C10.X8', 'dimsemessages:DIMSEMessage.encode:whole-message-paths',
              repo.func('dimsemessages', 'DIMSEMessage.encode').loc(), '%d whole-message path(s), each bounded by the fragment width' % nfp_,
              '; '.join(fp_))
    rep.rule('C10.X9', 'the limit an association starts with is the value it was given or the entity\'s configured one, chosen by '
             '``is None`` tests and never by truth: a configured 0 (no limit) is announced and applied as 0', 1)
    lp_, nl_ = limit_selection_problems(repo, hier)
    rep.check(not lp_, 'C10.X9', 'asceprovider:Association.__init__:limit-selection', repo.cls('asceprovider', 'Association').loc(),
              '%d store(s) of the starting limit, none chosen by truthiness' % nl_, '; '.join(lp_))
    # ---------------------------------------------------------------- X1 / X2
    facts = {}
    for cls, meth in (('AssociationAcceptor', 'accept'), ('AssociationRequester', '_request')):
        f, c, adopts = analyse_adoption(repo, hier, cls, meth)
        rep.analysed(f)
        probs = []
        zero_tested = False
        own_zero_handled = False
        if not adopts:
            probs.append('the peer\'s maximum length is never adopted: PDUs longer than the peer accepts may be sent')
        # by value: the limit in force after the exchange, at every order type of (own, peer)
        peer_t = peer_term_of([e.args[0] for e, s in adopts] + [cn for e, s in adopts for cn in e.conds])
        table = tabulate_limit([(e.args[0], e.conds) for e, s in adopts], peer_t) if adopts and peer_t else None
        if table is not None:
            for (own_, pv_), res_ in sorted(table.items()):
                want_ = effective_limit(own_, pv_)
                for r_ in sorted(res_, key=str):
                    got_ = own_ if r_ == ('kept',) else r_
                    if isinstance(got_, tuple):
                        probs.append('own limit %d, peer announces %d: adopting the peer\'s value raises %s (the association is not '
                                     'established although both values are legal)' % (own_, pv_, got_[1]))
                    elif got_ != want_:
                        probs.append('own limit %d, peer announces %d (0 = none): the limit in force becomes %d, PS3.8 D.1: %d'
                                     % (own_, pv_, got_, want_))
            facts[cls] = (True, True)
            rep.check(not probs, 'C10.X1', 'asceprovider:%s.%s:adoption' % (cls, meth), f.loc(),
                      'limit in force = smaller non-zero of (own, peer) at all %d order types of the two values (%d store path(s))'
                      % (len(table), len(adopts)), '; '.join(sorted(set(probs))[:4]))
        for e, s in (adopts if table is None else []):
            peer = e.args[0]
            if 'maximum_length_received' not in peer:
                probs.append('max_pdu_length is overwritten with %s, which is not the peer\'s announced maximum' % peer)
                continue
            nz, bigger, zero_cur = guard_facts(e.conds, peer)
            zero_tested = zero_tested or nz
            if not nz:
                probs.append('the peer\'s value is adopted without testing it for 0: a peer announcing "no limit" sets the '
                             'local limit to 0 (no fragment can be sent, or the limit is echoed as 0)')
            if not (bigger or zero_cur):
                probs.append('the peer\'s value is adopted without comparing it with the own limit')
            if zero_cur:
                own_zero_handled = True
        # is an own limit of 0 (no limit) handled?  some adoption path must allow current == 0
        cond_txt = ' '.join(cn for e, s in adopts for cn in e.conds)
        if adopts and not own_zero_handled and table is None:
            probs.append('with the own limit configured as 0 (none) the peer\'s limit is never adopted ("0 > peer" is false): '
                         'PDUs are sent without regard to the peer\'s maximum')
        if table is None:
            facts[cls] = (zero_tested, own_zero_handled)
            rep.check(not probs, 'C10.X1', 'asceprovider:%s.%s:adoption' % (cls, meth), f.loc(),
                      'adopted only if peer != 0 and (own > peer or own == 0) on %d path(s)' % len(adopts), '; '.join(sorted(set(probs))))
        # X2
        p2 = []
        if cls == 'AssociationRequester':
            # the value announced is the term the maximum-length sub-item of the PDU that is sent was built with: terms
            # are taken at construction time, so 'self.max_pdu_length' means the limit as configured, before any adoption
            sent = [(e, s) for e, s in c.log if e.kind == 'dul.send' and e.args and is_token(e.args[0])
                    and token_class(e.args[0]) == 'AAssociateRqPDU']
            if not sent:
                p2.append('no A-ASSOCIATE-RQ is sent')
            for e, s in sent:
                announced = [v_ for t_, f_, v_ in s.heap if t_.startswith('NEW_MaximumLengthSubItem') and f_ == '@maximum_length_received']
                if not announced:
                    p2.append('the request does not announce self.max_pdu_length')
                elif any(v_ != 'self.max_pdu_length' for v_ in announced):
                    p2.append('the request announces %s, not the own (configured) limit' % sorted(set(announced))[0])
        else:
            echoes = [(e, s) for e, s in c.log if e.kind == 'store' and e.callee.endswith('.maximum_length_received')]
            if not echoes:
                p2.append('the acceptor never writes the value it announces')
            # the reply is encoded later, by the provider thread: what it announces is what the sub-item holds then, so a write
            # made by whoever called accept(), after it returned, counts as well
            kls_ = repo.cls('asceprovider', cls)
            for mname_, mf_ in sorted(kls_.methods.items()):
                if mname_ == meth or not any(isinstance(n_, ast.Call) and norm(n_.func) == 'self.%s' % meth for n_ in ast.walk(mf_.node)):
                    continue
                rep.analysed(mf_)
                cc_ = SymClient(repo, mf_, event_of=ev, hierarchy=hier, store_event=stores, inline=lambda fi_: fi_.name == meth)
                cc_.run(empty_state())
                later_ = []
                for e_, s_ in cc_.log:
                    if e_.kind == 'store' and e_.callee.endswith('.maximum_length_received') and e_.fn.endswith('.' + mname_):
                        later_.append((e_, s_))
                for e_, s_ in later_:
                    v_ = e_.args[0]
                    table_ = tabulate_limit([(v_, tuple(cn for cn in e_.conds if OWN in cn or (peer_t and peer_t in cn)))], peer_term_of([v_]) or peer_t) \
                        if (peer_term_of([v_]) or peer_t) else None
                    bad_ = []
                    if table_ is None:
                        if v_ != OWN:
                            bad_.append('a value the rule cannot evaluate (%s)' % v_[:80])
                    else:
                        for (own_, pv_), res_ in sorted(table_.items()):
                            for r_ in res_:
                                if isinstance(r_, int) and r_ not in (effective_limit(own_, pv_), own_):
                                    bad_.append('%d with own limit %d and peer value %d' % (r_, own_, pv_))
                    if bad_:
                        p2.append('%s writes the Maximum Length sub-item of the request again after %s() has queued the reply that shares it '
                                  '(line %d): the A-ASSOCIATE-AC is encoded later and announces %s' % (mf_.qualname, meth, e_.line, bad_[0]))
            etable = tabulate_limit([(e.args[0], e.conds) for e, s in echoes], peer_t) if echoes and peer_t else None
            if etable is not None:
                for (own_, pv_), res_ in sorted(etable.items()):
                    want_ = effective_limit(own_, pv_)
                    for r_ in sorted(res_, key=str):
                        if r_ == ('kept',):
                            p2.append('own limit %d, peer announces %d: the acceptor leaves the requestor\'s value in the reply' % (own_, pv_))
                        elif isinstance(r_, tuple):
                            p2.append('own limit %d, peer announces %d: computing the announced value raises %s' % (own_, pv_, r_[1]))
                        elif r_ != want_ and not (r_ == own_):
                            # (announcing the configured limit unclamped is allowed: it is what the acceptor can receive)
                            p2.append('own limit %d, peer announces %d: the acceptor announces %d, neither its own limit nor the limit '
                                      'in force (%d)' % (own_, pv_, r_, want_))
            for e, s in (echoes if etable is None else []):
                # at the time of the echo the value must be the (possibly clamped) own limit
                v = e.args[0]
                ok = v == 'self.max_pdu_length' or 'maximum_length_received' in v
                # a peer-derived echo is only acceptable on a path where it was adopted under the guards
                if not ok:
                    p2.append('the acceptor announces %s, not the limit it will honour' % v)
                if 'maximum_length_received' in v:
                    nz, bigger, zero_cur = guard_facts(e.conds, v)
                    if not (nz and (bigger or zero_cur)):
                        p2.append('the acceptor echoes the requestor\'s value on a path where it may be 0 or larger than its own limit')
        rep.check(not p2, 'C10.X2', 'asceprovider:%s.%s:announced-value' % (cls, meth), f.loc(),
                  'announces its own limit (configured or clamped)', '; '.join(sorted(set(p2))))
    # sibling contradiction
    a, r = facts.get('AssociationAcceptor'), facts.get('AssociationRequester')
    if a is not None and r is not None and a[0] != r[0]:
        rep.bad('C10.X1', 'asceprovider:adoption:siblings', repo.module('asceprovider').relpath,
                'one side tests the peer\'s value for 0 and the other does not')

    # ---------------------------------------------------------------- X3
    send = repo.func('asceprovider', 'Association.send')
    rep.analysed(send)
    from .c06 import send_limit_problems
    p3 = send_limit_problems(repo, hier)
    rep.check(not p3, 'C10.X3', 'asceprovider:Association.send:limit-applied', send.loc(),
              'encode(pc_id, self.max_pdu_length) on every send', '; '.join(p3))

    # ---------------------------------------------------------------- X4
    for fname in ('fragment', 'fragment_file'):
        f = repo.func('dimsemessages', fname)
        rep.analysed(f)
        mp = f.params[1]
        probs = []
        widths = []
        if fname == 'fragment':
            from .c06 import bytes_fragmenter
            widths = list(bytes_fragmenter(repo, hier, rep)['widths'])
        else:
            c = SymClient(repo, f, event_of=c06_ev, hierarchy=hier)
            c.run(empty_state())
            for e, s in c.log:
                if e.kind == 'fp.read' and e.args != ('1',):
                    widths.append((e.args[0], e.conds))
        if not widths:
            probs.append('no fragment width found')
        from ..sym import inline_pure_calls
        for w, conds in widths:
            w = inline_pure_calls(w, repo, 'dimsemessages')
            guarded_nz = ('+' + mp) in conds or ('-not ' + mp) in conds or ('-%s == 0' % mp) in conds
            guarded_z = ('-' + mp) in conds or ('+not ' + mp) in conds or ('+%s == 0' % mp) in conds
            try:
                we = ast.parse(w, mode='eval').body
            except SyntaxError:
                we = None
            uses_or = we is not None and any(isinstance(n, ast.BoolOp) and isinstance(n.op, ast.Or) and
                                             any(isinstance(v, ast.Name) and v.id == mp for v in n.values) for n in ast.walk(we))
            uses_ifexp = we is not None and any(isinstance(n, ast.IfExp) and mp in norm(n.test) for n in ast.walk(we))
            mentions = mp in w
            if uses_or:
                for n in ast.walk(we):
                    if isinstance(n, ast.BoolOp) and isinstance(n.op, ast.Or):
                        dflt = repo.try_fold(n.values[-1], f.module)
                        from .c06 import overhead
                        k = overhead(repo)[0] + 1
                        if not (isinstance(dflt, int) and dflt > k):
                            probs.append('default used when no limit is in force (%s) does not leave room for a payload byte' % norm(n.values[-1]))
            if guarded_z and mentions and not uses_or:
                probs.append('on the "no limit" path the width is still computed from the limit: %s' % w)
            if mentions and not (guarded_nz or uses_or or uses_ifexp):
                probs.append('fragment width %s with %s == 0 (no limit) is negative: no fragment is produced and nothing is sent'
                             % (w, mp))
        rep.check(not probs, 'C10.X4', 'dimsemessages:%s:zero-limit' % fname, f.loc(),
                  'a limit of 0 yields a positive fragment width', '; '.join(sorted(set(probs))))
        # X5: the width term at the boundary values of the limit
        from ..arith import CannotEvaluate, eval_term
        from .c06 import overhead as _ovh
        k = _ovh(repo)[0] + 1
        grid = [0, k + 1, k + 2, k + 3, 127, 128, 1024, 16384, 65535, 65536, 2 ** 31, 2 ** 32 - 1]
        p5 = []
        for w, conds in widths:
            w = inline_pure_calls(w, repo, 'dimsemessages')
            try:
                we = ast.parse(w, mode='eval')
            except SyntaxError:
                raise AnalysisError('%s: fragment width %s is not an expression' % (f.loc(), w))
            for L in grid:
                # path conditions on the limit select which width term applies to this value
                applicable = True
                for cn in conds:
                    if mp not in cn or cn[:1] not in '+-':
                        continue
                    try:
                        cv = eval_term(ast.parse(cn[1:], mode='eval'), {mp: L})
                    except (CannotEvaluate, SyntaxError):
                        continue
                    if bool(cv) != (cn[0] == '+'):
                        applicable = False
                if not applicable:
                    continue
                try:
                    val = eval_term(we, {mp: L})
                except CannotEvaluate as exc:
                    raise AnalysisError('%s: fragment width %s cannot be evaluated (%s)' % (f.loc(), w, exc))
                if not isinstance(val, int) or val < 1:
                    p5.append('with a limit of %d the fragment width %s is %s: no payload byte fits, nothing can be sent' % (L, w, val))
                elif L != 0 and val + k > L:
                    p5.append('with a limit of %d the fragment width %s is %d: the P-DATA-TF would carry %d bytes' % (L, w, val, val + k))
        rep.check(not p5, 'C10.X5', 'dimsemessages:%s:width-at-boundaries' % fname, f.loc(),
                  'width >= 1 and width + %d <= limit at %d boundary values of the limit' % (k, len(grid)), '; '.join(sorted(set(p5))[:4]))
    from .c06 import chunks_problems
    ps2_, ps3_, chf = chunks_problems(repo, rep)
    rep.check(not (ps2_ or ps3_), 'C10.X6', 'dimsemessages:chunks:any-size', chf.loc(), 'tiling and last flag hold for every length',
              '; '.join(ps2_ + ps3_))
    cip = repo.cls('dulprovider', 'DULServiceProvider').find_method('_check_incoming_pdu')
    rep.analysed(cip)
    probs = []
    recvs = [n for n in ast.walk(cip.node) if isinstance(n, ast.Call) and isinstance(n.func, ast.Attribute) and n.func.attr == 'recv']
    if not recvs:
        raise AnalysisError('no recv in _check_incoming_pdu')
    for n in recvs:
        a = n.args[0] if n.args else None
        txt = norm(a) if a is not None else ''
        if 'max_pdu_length' in txt and not any(isinstance(x, (ast.BoolOp, ast.IfExp)) for x in ast.walk(a)) \
                and not (isinstance(a, ast.Call) and norm(a.func) == 'max'):
            probs.append('recv(%s): with a configured limit of 0 (none) this is recv(0), which returns b\'\' at once and is '
                         'taken for "peer closed"' % txt)
    rep.check(not probs, 'C10.X4', 'dulprovider:DULServiceProvider._check_incoming_pdu:zero-limit', cip.loc(),
              'socket read size is positive also when the configured limit is 0', '; '.join(probs))
