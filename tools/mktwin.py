#!/usr/bin/env python3
"""mktwin.py <seed id> <Rnn> <file under pynetdicom2> <<< JSON [[old, new], ...]

Build the behaviour-preserving twin of a seeded change: apply seeded/<id>/patch.diff to a scratch copy of /repo's package,
repair its one defect by the given exact text replacements (each must match once), check that the 70 unit tests pass and that
the seed's own demo PASSES on the twin, store the result as refactors/<Rnn>/patch.diff (+ notes.md) and run the 20 checks on it."""
import json, os, shutil, subprocess, sys, tempfile
VERIF = os.path.dirname(os.path.dirname(os.path.abspath(__file__)))
seed, rid, rel = sys.argv[1:4]
edits = json.load(sys.stdin)
tmp = tempfile.mkdtemp(prefix='twin_')
try:
    shutil.copytree('/repo/pynetdicom2', os.path.join(tmp, 'pynetdicom2'))
    shutil.copytree('/repo/pynetdicom2', os.path.join(tmp, 'orig', 'pynetdicom2'))
    shutil.copytree('/repo/tests', os.path.join(tmp, 'tests'))
    p = subprocess.run(['patch', '-p1', '-s', '--no-backup-if-mismatch', '-i', os.path.join(VERIF, 'seeded', seed, 'patch.diff')], cwd=tmp)
    if p.returncode:
        sys.exit('seed patch does not apply')
    edits = [e if len(e) == 3 else [rel] + list(e) for e in edits]
    for rel_, old, new in edits:
        path = os.path.join(tmp, 'pynetdicom2', rel_)
        s = open(path).read()
        if s.count(old) != 1:
            sys.exit('replacement text occurs %d times in %s: %r' % (s.count(old), rel_, old[:60]))
        s = s.replace(old, new)
        open(path, 'w').write(s)
    edits = [(o, n) for _r, o, n in edits]
    r = subprocess.run(['/venv/bin/python', '-m', 'pytest', '-q', '-p', 'no:cacheprovider', 'tests/test_dimsemessages.py', 'tests/test_pdu.py'],
                       cwd=tmp, capture_output=True, text=True)
    print('tests:', r.stdout.strip().splitlines()[-1])
    shutil.copy(os.path.join(VERIF, 'seeded', seed, 'demo.py'), os.path.join(tmp, 'demo.py'))
    d = subprocess.run(['/venv/bin/python', 'demo.py'], cwd=tmp, capture_output=True, text=True, timeout=600)
    print('demo on twin: rc=%d %s' % (d.returncode, (d.stdout.strip().splitlines() or [''])[-1][:100]))
    diff = subprocess.run(['diff', '-ruN', '-x', '__pycache__', '-x', '*.pyc', 'orig/pynetdicom2', 'pynetdicom2'], cwd=tmp, capture_output=True, text=True).stdout
    out = []
    for l in diff.splitlines(True):
        if l.startswith('diff -ru'):
            continue
        if l.startswith('--- orig/pynetdicom2'):
            l = '--- a/pynetdicom2' + l[len('--- orig/pynetdicom2'):]
        elif l.startswith('+++ pynetdicom2'):
            l = '+++ b/pynetdicom2' + l[len('+++ pynetdicom2'):]
        out.append(l)
    dst = os.path.join(VERIF, 'refactors', rid)
    os.makedirs(dst, exist_ok=True)
    open(os.path.join(dst, 'patch.diff'), 'w').write(''.join(out))
    meta = json.load(open(os.path.join(VERIF, 'seeded', seed, 'meta.json')))
    open(os.path.join(dst, 'notes.md'), 'w').write(
        '# %s - behaviour-preserving twin of seeded change %s\n\nThe clean-up part of %s with its one defect repaired by hand '
        '(%s: %s).\nThe seed\'s own demonstration passes on this tree (rc %d) and the 70 unit tests pass. Kept so that the seed is '
        'reported for its defect and not for its clean-up.\n\nSeed summary: %s\n'
        % (rid, seed, seed, rel, '; '.join('`%s` -> `%s`' % (o.strip()[:70], n.strip()[:70]) for o, n in edits), d.returncode,
           meta.get('summary', '')[:700]))
    ok = subprocess.run(['git', '-C', '/repo', 'apply', '--check', os.path.join(dst, 'patch.diff')]).returncode == 0
    print('applies to /repo:', ok)
    subprocess.run([os.path.join(VERIF, 'tools', 'try_refactor.sh'), tmp, '6'])
finally:
    shutil.rmtree(tmp, ignore_errors=True)
