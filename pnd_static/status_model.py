"""What path conditions say about a ``statuses.Status`` object: the set of status types they allow.

The five types are a finite domain, so a condition on a status -- a flag (``s.is_pending``), a comparison of ``s.status_type`` with a
literal, a membership test in a constant collection, a predicate property inlined into one of these, and any boolean combination --
is decided by folding it for each type.  The flags' meaning is read from the class: the assignments the constructor makes
(``self.is_pending = self.status_type == 'Pending'``) or read-only properties of the same names."""
from __future__ import annotations

import ast
from typing import Dict, List, Optional, Set

from .srcmodel import AnalysisError, Repo

TYPES = ('Success', 'Warning', 'Failure', 'Cancel', 'Pending')


def flag_definitions(repo: Repo) -> Dict[str, ast.expr]:
    """{flag name: expression over ``self.status_type``} for the ``is_*`` attributes / properties of Status"""
    cached = getattr(repo, '_status_flags', None)
    if cached is not None:
        return cached
    from .fsm_model import exc_hierarchy
    from .sym import SymClient, empty_state
    sc = repo.cls('statuses', 'Status')
    out: Dict[str, ast.expr] = {}
    init = sc.find_method('__init__')
    if init is not None:
        helper = lambda fi: fi.module.name == 'statuses' and fi.cls is None and fi.name not in ('add_status', 'register_statuses')
        c = SymClient(repo, init, event_of=lambda *a: None, hierarchy=exc_hierarchy(repo), inline=helper,
                      store_event=lambda t: t.startswith('self.'))
        fin = c.final_states(c.run(empty_state()))
        # (a path on which the type is a literal -- a helper returned a record it built -- says nothing about how the flags are
        # computed from the type: the paths on which the type is read from a record come first)
        fin = sorted(fin, key=lambda sh: 1 if (sh[0].field('EXT:self', 'status_type') or '')[:1] in ('"', "'") else 0)
        for s, how in fin:
            tt = s.field('EXT:self', 'status_type')
            if tt and tt[:1] in ('"', "'") and out:
                continue
            for t_, f_, v_ in s.heap:
                if t_ == 'EXT:self' and f_.startswith('is_'):
                    try:
                        ce = ast.parse(v_.replace(tt, 'self.status_type') if tt else v_, mode='eval').body
                    except SyntaxError:
                        continue
                    out.setdefault(f_, ce)
    for k in sc.mro():
        for name, fi in k.methods.items():
            if fi.kind == 'property' and name.startswith('is_') and name not in out:
                body = [st for st in fi.node.body if not (isinstance(st, ast.Expr) and isinstance(st.value, ast.Constant))]
                if len(body) == 1 and isinstance(body[0], ast.Return) and body[0].value is not None:
                    e = body[0].value
                    # module constants the property names
                    import copy

                    class F(ast.NodeTransformer):
                        def visit_Name(self_, n):
                            if n.id not in ('self',):
                                v = repo.try_fold(n, fi.module, k)
                                if isinstance(v, (frozenset, set, tuple, list)) and all(isinstance(x, str) for x in v):
                                    return ast.Tuple(elts=[ast.Constant(value=x) for x in sorted(v)], ctx=ast.Load())
                                if isinstance(v, (str, int)):
                                    return ast.Constant(value=v)
                            return n
                    out[name] = F().visit(copy.deepcopy(e))
    repo._status_flags = out
    return out


def _eval_for_type(e: ast.expr, tok: str, t: str, flags: Dict[str, ast.expr], depth=0):
    from .arith import CannotEvaluate, eval_value
    env = {'%s.status_type' % tok: t, 'self.status_type': t}
    if depth < 3:
        for name, fe in flags.items():
            try:
                env['%s.%s' % (tok, name)] = bool(_eval_for_type(fe, 'self', t, flags if name not in _flags_in(fe) else {}, depth + 1))
            except CannotEvaluate:
                pass
    return eval_value(e, env)


def _flags_in(e: ast.expr) -> Set[str]:
    return {n.attr for n in ast.walk(e) if isinstance(n, ast.Attribute) and n.attr.startswith('is_')}


def allowed_types(conds, tok: str, repo: Repo) -> Optional[Set[str]]:
    """status types of the Status object ``tok`` compatible with all path conditions that talk about it; None when a condition on
    it cannot be decided"""
    from .arith import CannotEvaluate
    flags = flag_definitions(repo)
    allowed = set(TYPES)
    for c in conds:
        if not c or c[0] not in '+-' or (tok + '.') not in c:
            continue
        try:
            e = ast.parse(c[1:], mode='eval').body
        except SyntaxError:
            return None
        keep = set()
        for t in allowed:
            try:
                v = bool(_eval_for_type(e, tok, t, flags))
            except CannotEvaluate:
                return None
            except Exception:
                return None
            if v == (c[0] == '+'):
                keep.add(t)
        allowed = keep
    return allowed


def status_tokens(conds) -> List[str]:
    """Status objects the conditions mention (``NEW_Status_L<line>``)"""
    import re
    out = []
    for c in conds:
        for m in re.findall(r'NEW_Status_L\d+', c):
            if m not in out:
                out.append(m)
    return out
