"""Forward copy propagation of attribute aliases inside one function (a normalisation pass).

``sock = self.dul_socket`` ... ``sock.sendall(x)`` reads as ``self.dul_socket.sendall(x)``: a local that only caches an
attribute chain (or names the value of a call-free boolean expression) is replaced by what it stands for at every use the
alias provably reaches.  The pass is a structured forward dataflow over the statement tree:

* facts: ``local -> expression`` (an attribute chain rooted at a local / parameter, or a Compare / BoolOp / ``not`` over such
  chains, names and constants);
* gen: ``x = self.a.b``; ``x = self.a = <expr>`` and ``self.a = x`` (afterwards both denote the same object); ``x = <boolean
  expression without calls>``;
* kill: rebinding of the local or of a name the expression mentions; a store to an attribute whose name occurs in the
  expression (whatever the receiver: aliasing through other objects is covered by name); a call of a package function or
  method (by name) that may, transitively, store to such an attribute; for boolean facts, any call or store at all;
* merge: intersection of the facts of the branches that fall through; loops start from the facts that survive every kill
  of their body.

The binding statement itself is kept (a dead store), so closures and unsubstituted uses still see the local.
"""
from __future__ import annotations

import ast
import copy
from typing import Dict, List, Optional, Set, Tuple

Env = Dict[str, ast.expr]


def _chain(e: ast.expr) -> Optional[Tuple[str, ...]]:
    parts: List[str] = []
    while isinstance(e, ast.Attribute):
        parts.append(e.attr)
        e = e.value
    if isinstance(e, ast.Name):
        parts.append(e.id)
        return tuple(reversed(parts))
    return None


def _is_chain(e: ast.expr, roots: Set[str]) -> bool:
    c = _chain(e)
    return c is not None and len(c) >= 2 and c[0] in roots


def _is_boolexpr(e: ast.expr, roots: Set[str]) -> bool:
    """Compare / BoolOp / not over chains, local names and constants -- no calls, subscripts, arithmetic"""
    if not isinstance(e, (ast.Compare, ast.BoolOp)) and not (isinstance(e, ast.UnaryOp) and isinstance(e.op, ast.Not)):
        return False

    def ok(x) -> bool:
        if isinstance(x, ast.Constant):
            return True
        if isinstance(x, ast.Name):
            return True
        if isinstance(x, ast.Attribute):
            return _chain(x) is not None
        if isinstance(x, ast.Compare):
            return ok(x.left) and all(ok(c) for c in x.comparators)
        if isinstance(x, ast.BoolOp):
            return all(ok(v) for v in x.values)
        if isinstance(x, ast.UnaryOp) and isinstance(x.op, ast.Not):
            return ok(x.operand)
        if isinstance(x, ast.Tuple):
            return all(ok(v) for v in x.elts)
        return False
    return ok(e)


def _inner_attrs(e: ast.expr) -> Set[str]:
    """attribute names of the expression that have a further attribute read on top of them (``a`` in ``x.a.b``)"""
    out = set()
    for n in ast.walk(e):
        if isinstance(n, ast.Attribute) and isinstance(n.value, ast.Attribute):
            out.add(n.value.attr)
    return out


def _mentions(e: ast.expr) -> Tuple[Set[str], Set[str]]:
    names, attrs = set(), set()
    for n in ast.walk(e):
        if isinstance(n, ast.Name):
            names.add(n.id)
        elif isinstance(n, ast.Attribute):
            attrs.add(n.attr)
    return names, attrs


class StoreSummary:
    """package function -> attribute names it may store to, transitively through the calls it makes.

    Calls are resolved through the receiver where the source says what it is (``self.m()`` / ``cls.m()`` inside a class:
    that method in the class, its bases and subclasses; ``mod.f()`` / ``f()`` / ``Class()``: the module function or the
    constructors); any other ``<expr>.m()`` stands for every package method called ``m``.  A ``setattr`` with a computed
    name on ``<...>.r`` is recorded as ``r.*``: some attribute of the object held in an attribute called ``r``; on a bare
    name as ``*``."""

    def __init__(self, repo):
        self.repo = repo
        self.funcs: Dict[str, Tuple[ast.AST, object, object]] = {}
        self.by_name: Dict[str, List[str]] = {}

        def index(fi):
            self.funcs[fi.key] = (fi.node, fi.cls, fi.module)
            if fi.cls is not None and fi.parent is None:
                self.by_name.setdefault(fi.name, []).append(fi.key)
            for sub in fi.nested.values():
                index(sub)
        for m in repo.modules.values():
            for fi in m.functions.values():
                index(fi)
            for c in m.classes.values():
                for fi in list(c.methods.values()) + list(c.setters.values()):
                    # a property and its setter share the name: keep both under distinct keys
                    key = fi.key if fi.key not in self.funcs else fi.key + '#' + fi.kind
                    self.funcs[key] = (fi.node, fi.cls, fi.module)
                    if fi.kind not in ('property', 'setter'):
                        self.by_name.setdefault(fi.name, []).append(key)
                    for sub in fi.nested.values():
                        index(sub)
        self.direct: Dict[str, Set[str]] = {}
        self.callees: Dict[str, Set[str]] = {}
        # attribute stores that go through a setter run the setter
        setters: Dict[str, List[str]] = {}
        for key, (node, cls, mod) in self.funcs.items():
            if key.endswith('#setter') or (isinstance(node, ast.FunctionDef) and any(
                    isinstance(d, ast.Attribute) and d.attr == 'setter' for d in node.decorator_list)):
                setters.setdefault(node.name, []).append(key)
        for key, (node, cls, mod) in self.funcs.items():
            d: Set[str] = set()
            c: Set[str] = set()
            fresh = self._fresh_locals(node, mod)
            for n in self._own_nodes(node):
                if isinstance(n, ast.Attribute) and isinstance(n.ctx, (ast.Store, ast.Del)):
                    if isinstance(n.value, ast.Name) and n.value.id in fresh:
                        # an attribute of an object this call created: no chain a caller holds passes through it
                        continue
                    d.add(n.attr)
                    c.update(k for k in setters.get(n.attr, []) if k != key)
                elif isinstance(n, ast.Call):
                    d.update(self._dynamic_store(n))
                    c.update(self.resolve(n, cls, mod))
            self.direct[key] = d
            self.callees[key] = c
            if getattr(node, 'name', '') == '__init__' and cls is not None and node.args.args:
                # the same constructor when it runs on the object being created: stores to that object's own attributes
                # cannot touch a chain anybody holds already
                slf = node.args.args[0].arg
                d2 = set()
                for n in self._own_nodes(node):
                    if isinstance(n, ast.Attribute) and isinstance(n.ctx, (ast.Store, ast.Del)):
                        if isinstance(n.value, ast.Name) and (n.value.id in fresh or n.value.id == slf):
                            continue
                        d2.add(n.attr)
                    elif isinstance(n, ast.Call):
                        d2.update(self._dynamic_store(n))
                self.direct[key + '#ctor'] = d2
                self.callees[key + '#ctor'] = c
        self.stores: Dict[str, Set[str]] = {k: set(v) for k, v in self.direct.items()}
        changed = True
        while changed:
            changed = False
            for f, cs in self.callees.items():
                cur = self.stores[f]
                for c in cs:
                    extra = self.stores.get(c)
                    if extra and not extra <= cur:
                        cur |= extra
                        changed = True

    def _fresh_locals(self, fnode, mod) -> Set[str]:
        """locals of a function that are only ever bound to the result of a constructor call (a package class, or an
        external callable with a class-like name such as ``Dataset`` / ``socket.socket``)"""
        from .srcmodel import ClassRef
        binds: Dict[str, List[Optional[ast.expr]]] = {}
        a = fnode.args
        for x in a.args + a.kwonlyargs + a.posonlyargs + ([a.vararg] if a.vararg else []) + ([a.kwarg] if a.kwarg else []):
            binds.setdefault(x.arg, []).append(None)
        for n in self._own_nodes(fnode):
            if isinstance(n, ast.Assign):
                for t in n.targets:
                    if isinstance(t, ast.Name):
                        binds.setdefault(t.id, []).append(n.value)
                    else:
                        for x in ast.walk(t):
                            if isinstance(x, ast.Name) and isinstance(x.ctx, ast.Store):
                                binds.setdefault(x.id, []).append(None)
            elif isinstance(n, (ast.AnnAssign,)) and isinstance(n.target, ast.Name):
                binds.setdefault(n.target.id, []).append(n.value)
            elif isinstance(n, ast.Name) and isinstance(n.ctx, (ast.Store, ast.Del)):
                binds.setdefault(n.id, [])
            elif isinstance(n, (ast.For, ast.AsyncFor, ast.comprehension)):
                for x in ast.walk(n.target):
                    if isinstance(x, ast.Name):
                        binds.setdefault(x.id, []).append(None)
            elif isinstance(n, (ast.With, ast.AsyncWith)):
                for it in n.items:
                    if it.optional_vars is not None:
                        for x in ast.walk(it.optional_vars):
                            if isinstance(x, ast.Name):
                                binds.setdefault(x.id, []).append(None)
            elif isinstance(n, ast.ExceptHandler) and n.name:
                binds.setdefault(n.name, []).append(None)
            elif isinstance(n, ast.NamedExpr) and isinstance(n.target, ast.Name):
                binds.setdefault(n.target.id, []).append(None)
            elif isinstance(n, (ast.Global, ast.Nonlocal)):
                for x in n.names:
                    binds.setdefault(x, []).append(None)

        def ctor(v) -> bool:
            if not isinstance(v, ast.Call) or not isinstance(v.func, (ast.Name, ast.Attribute)):
                return False
            last = v.func.id if isinstance(v.func, ast.Name) else v.func.attr
            try:
                r = self.repo.resolve_expr(v.func, mod) if mod is not None else None
            except Exception:
                r = None
            if isinstance(r, ClassRef):
                return True
            root = v.func
            while isinstance(root, ast.Attribute):
                root = root.value
            if isinstance(root, ast.Name) and root.id in binds:
                return False       # a method of some local object
            return last[:1].isupper() or ast.unparse(v.func) == 'socket.socket'
        return {k for k, vs in binds.items() if vs and all(v is not None and ctor(v) for v in vs)}

    @staticmethod
    def _own_nodes(fnode):
        """nodes of a function body without the bodies of nested functions / classes (they are indexed on their own;
        calling them is a call)"""
        stack = list(ast.iter_child_nodes(fnode))
        while stack:
            n = stack.pop()
            yield n
            if isinstance(n, (ast.FunctionDef, ast.AsyncFunctionDef, ast.ClassDef, ast.Lambda)):
                continue
            stack.extend(ast.iter_child_nodes(n))

    @staticmethod
    def _dynamic_store(call: ast.Call) -> Set[str]:
        fn = call.func
        if isinstance(fn, ast.Name) and fn.id in ('setattr', 'delattr') and len(call.args) >= 2:
            if isinstance(call.args[1], ast.Constant):
                return {call.args[1].value}
            recv = call.args[0]
            return {recv.attr + '.*'} if isinstance(recv, ast.Attribute) else {'*'}
        if isinstance(fn, ast.Attribute) and fn.attr in ('__setattr__', '__delattr__', '__dict__'):
            return {'*'}
        return set()

    def resolve(self, call: ast.Call, cls, mod) -> Set[str]:
        from .srcmodel import ClassRef, FuncRef
        fn = call.func
        out: Set[str] = set()
        if isinstance(fn, ast.Attribute) and isinstance(fn.value, ast.Name) and fn.value.id in ('self', 'cls') and cls is not None:
            fams = [cls] + [k for k in cls.mro() if k is not cls] + [k for k in self.repo.subclasses(cls) if k is not cls]
            hit = False
            for k in fams:
                f = k.methods.get(fn.attr)
                if f is not None:
                    out.add(f.key)
                    hit = True
            if hit:
                return out
            # an attribute holding a callable (callback, bound method stored on the instance): by name
            return set(self.by_name.get(fn.attr, []))
        if isinstance(fn, ast.Attribute) and fn.attr == '__init__' and cls is not None:
            # super().__init__(...) / Base.__init__(self, ...): the constructors of the bases, on the same new object
            for b in cls.mro():
                if b is cls:
                    continue
                f = b.methods.get('__init__')
                if f is not None:
                    out.add(f.key + '#ctor')
            return out
        if isinstance(fn, (ast.Name, ast.Attribute)):
            root = fn
            while isinstance(root, ast.Attribute):
                root = root.value
            r = None
            if isinstance(root, ast.Name) and mod is not None:
                try:
                    r = self.repo.resolve_expr(fn, mod)
                except Exception:
                    r = None
            if isinstance(r, FuncRef):
                return {'%s:%s' % (r.module, r.qualname)}
            if isinstance(r, ClassRef):
                try:
                    k = self.repo.cls(r.module, r.name)
                except Exception:
                    k = None
                if k is not None:
                    for b in k.mro():
                        f = b.methods.get('__init__')
                        if f is not None:
                            out.add(f.key + '#ctor')
                    return out
            if isinstance(fn, ast.Attribute):
                return set(self.by_name.get(fn.attr, []))
            # a local / parameter holding a callable, or a builtin
            cands = set(self.by_name.get(fn.id, []))
            return cands
        return out

    def of_call(self, call: ast.Call, cls=None, mod=None) -> Set[str]:
        out = set(self._dynamic_store(call))
        if not isinstance(call.func, (ast.Name, ast.Attribute)):
            return out | {'*'}
        for k in self.resolve(call, cls, mod):
            out |= self.stores.get(k, set())
        return out


class CopyPropagator:
    def __init__(self, summary: StoreSummary, is_logging=None, cls=None, mod=None):
        self.summary = summary
        self.cls, self.mod = cls, mod
        self.is_logging = is_logging or (lambda call: False)
        self.count = 0

    # ------------------------------------------------------------------ kills of a region
    def _kills(self, nodes) -> Tuple[Set[str], Set[str], bool]:
        """(names rebound, attribute names possibly stored, any call-or-store at all) in a list of nodes (nested
        function bodies excluded: they run when called, which the by-name call summary covers)"""
        names: Set[str] = set()
        attrs: Set[str] = set()
        impure = [False]

        def walk(n):
            if isinstance(n, (ast.FunctionDef, ast.AsyncFunctionDef, ast.ClassDef)):
                names.add(n.name)
                return
            if isinstance(n, ast.Lambda):
                return
            if isinstance(n, ast.Name) and isinstance(n.ctx, (ast.Store, ast.Del)):
                names.add(n.id)
            elif isinstance(n, ast.Attribute) and isinstance(n.ctx, (ast.Store, ast.Del)):
                attrs.add(n.attr)
                impure[0] = True
            elif isinstance(n, ast.Subscript) and isinstance(n.ctx, (ast.Store, ast.Del)):
                impure[0] = True
            elif isinstance(n, ast.ExceptHandler) and n.name:
                names.add(n.name)
            elif isinstance(n, (ast.Import, ast.ImportFrom)):
                for a in n.names:
                    names.add((a.asname or a.name).split('.')[0])
            elif isinstance(n, (ast.Global, ast.Nonlocal)):
                names.update(n.names)
            elif isinstance(n, ast.Call):
                if not self.is_logging(n):
                    impure[0] = True
                    attrs.update(self.summary.of_call(n, self.cls, self.mod))
            elif isinstance(n, (ast.Yield, ast.YieldFrom, ast.Await)):
                # control leaves the function: like a call into code outside the package, which is assumed not to rebind
                # attributes of the objects this function holds (it may well change what a truth test or comparison sees)
                impure[0] = True
            for ch in ast.iter_child_nodes(n):
                walk(ch)
        for n in nodes:
            if n is not None:
                walk(n)
        return names, attrs, impure[0]

    @staticmethod
    def _apply_kills(env: Env, kills) -> Env:
        names, attrs, impure = kills
        if not env or not (names or attrs or impure):
            return env
        out: Env = {}
        for k, e in env.items():
            if k in names:
                continue
            mn, ma = _mentions(e)
            if mn & names:
                continue
            if '*' in attrs or (ma & attrs):
                continue
            if any(a.endswith('.*') and a[:-2] in _inner_attrs(e) for a in attrs):
                continue
            if impure and not isinstance(e, ast.Attribute):
                continue
            out[k] = e
        return out

    # ------------------------------------------------------------------ rewriting loads
    def _rewrite(self, e, env: Env, blocked: Set[str] = frozenset()):
        """replace loads of aliased locals inside expression node ``e`` (in place for children; returns the new node)"""
        if e is None or not env:
            return e
        me = self

        class T(ast.NodeTransformer):
            def visit_Name(self, n):
                if isinstance(n.ctx, ast.Load) and n.id in env and n.id not in blocked:
                    new = copy.deepcopy(env[n.id])
                    for x in ast.walk(new):
                        if hasattr(x, 'lineno'):
                            x.lineno, x.end_lineno = n.lineno, getattr(n, 'end_lineno', n.lineno)
                            x.col_offset, x.end_col_offset = n.col_offset, getattr(n, 'end_col_offset', n.col_offset)
                    me.count += 1
                    return new
                return n

            def _scoped(self, n, bound: Set[str]):
                hide = bound & set(env)
                if not hide:
                    return self.generic_visit(n)
                sub = {k: v for k, v in env.items() if k not in hide and not (_mentions(v)[0] & hide)}
                return me._rewrite_children(n, sub, blocked)

            def visit_Lambda(self, n):
                a = n.args
                bound = {x.arg for x in a.args + a.kwonlyargs + a.posonlyargs}
                if a.vararg:
                    bound.add(a.vararg.arg)
                if a.kwarg:
                    bound.add(a.kwarg.arg)
                # a lambda body runs later: the alias may be dead by then
                return n

            def _comp(self, n):
                bound = set()
                for g in n.generators:
                    for x in ast.walk(g.target):
                        if isinstance(x, ast.Name):
                            bound.add(x.id)
                return self._scoped(n, bound)
            visit_ListComp = visit_SetComp = visit_DictComp = _comp

            def visit_GeneratorExp(self, n):
                # lazily evaluated: only the outermost iterable is evaluated here
                n.generators[0].iter = self.visit(n.generators[0].iter)
                return n

            def visit_FunctionDef(self, n):
                return n
            visit_AsyncFunctionDef = visit_ClassDef = visit_FunctionDef
        return T().visit(e)

    def _rewrite_children(self, n, env: Env, blocked):
        for fld, val in ast.iter_fields(n):
            if isinstance(val, ast.AST):
                setattr(n, fld, self._rewrite(val, env, blocked))
            elif isinstance(val, list):
                setattr(n, fld, [self._rewrite(v, env, blocked) if isinstance(v, ast.AST) else v for v in val])
        return n

    # ------------------------------------------------------------------ statements
    def run(self, fnode) -> int:
        a = fnode.args
        params = {x.arg for x in a.args + a.kwonlyargs + a.posonlyargs}
        if a.vararg:
            params.add(a.vararg.arg)
        if a.kwarg:
            params.add(a.kwarg.arg)
        self.escaping: Set[str] = set()
        self.params = set(params)      # parameters keep their names: they are what callers (and rules) talk about
        self.roots: Set[str] = set(params)
        for n in ast.walk(fnode):
            if isinstance(n, (ast.Global, ast.Nonlocal)):
                self.escaping.update(n.names)
            elif isinstance(n, ast.Name) and isinstance(n.ctx, ast.Store):
                self.roots.add(n.id)
            elif isinstance(n, ast.ExceptHandler) and n.name:
                self.roots.add(n.name)
        # locals rebound inside nested functions (nonlocal) are out of reach
        for n in ast.walk(fnode):
            if n is not fnode and isinstance(n, (ast.FunctionDef, ast.AsyncFunctionDef)):
                for x in ast.walk(n):
                    if isinstance(x, ast.Nonlocal):
                        self.escaping.update(x.names)
        before = self.count
        self._block(fnode.body, {})
        self._closures(fnode)
        return self.count - before

    def _closures(self, fnode):
        """free variables of nested functions: a local of the enclosing function that is bound exactly once, to an attribute
        chain nothing in the whole function (nested bodies included) can invalidate, stands for that chain whenever the nested
        function runs after the binding (before it, the name would not be bound at all)"""
        nested = [n for n in ast.walk(fnode) if n is not fnode and isinstance(n, (ast.FunctionDef, ast.AsyncFunctionDef, ast.Lambda))]
        if not nested:
            return
        stores: Dict[str, int] = {}
        for n in ast.walk(fnode):
            if isinstance(n, ast.Name) and isinstance(n.ctx, (ast.Store, ast.Del)):
                stores[n.id] = stores.get(n.id, 0) + 1
            elif isinstance(n, ast.ExceptHandler) and n.name:
                stores[n.name] = stores.get(n.name, 0) + 2
            elif isinstance(n, ast.arg) :
                stores[n.arg] = stores.get(n.arg, 0) + 1
            elif isinstance(n, (ast.Import, ast.ImportFrom)):
                for a in n.names:
                    k = (a.asname or a.name).split('.')[0]
                    stores[k] = stores.get(k, 0) + 2
            elif isinstance(n, (ast.FunctionDef, ast.AsyncFunctionDef, ast.ClassDef)) and n is not fnode:
                stores[n.name] = stores.get(n.name, 0) + 2
        # whole-function kill set, flow-insensitively (the nested bodies are walked as well: they run at unknown times)
        names_k, attrs_k, _imp = self._kills_deep(fnode)
        cands: Env = {}
        for st in ast.walk(fnode):
            if isinstance(st, ast.Assign) and len(st.targets) == 1 and isinstance(st.targets[0], ast.Name):
                x = st.targets[0].id
                if stores.get(x) != 1 or x in self.escaping or x in self.params or not _is_chain(st.value, self.roots):
                    continue
                mn, ma = _mentions(st.value)
                if any(stores.get(n, 0) != 1 or n not in self.params for n in mn):
                    continue       # rooted at something that can change
                if '*' in attrs_k or (ma & attrs_k) or any(a.endswith('.*') and a[:-2] in _inner_attrs(st.value) for a in attrs_k):
                    continue
                # the binding must not sit inside a nested function itself
                cands[x] = st.value
        if not cands:
            return
        for nf in nested:
            if any(nf is not o and nf in ast.walk(o) for o in nested if o is not nf):
                continue       # handled through its outermost nested function
            bound = set()
            for n in ast.walk(nf):
                if isinstance(n, ast.Name) and isinstance(n.ctx, (ast.Store, ast.Del)):
                    bound.add(n.id)
                elif isinstance(n, ast.arg):
                    bound.add(n.arg)
                elif isinstance(n, (ast.Global, ast.Nonlocal)):
                    bound.update(n.names)
            env = {k: v for k, v in cands.items() if k not in bound and not (_mentions(v)[0] & bound)
                   and not any(isinstance(x, ast.Assign) and x.value is v for x in ast.walk(nf))}
            if not env:
                continue
            me = self

            class T(ast.NodeTransformer):
                def visit_Name(self, n):
                    if isinstance(n.ctx, ast.Load) and n.id in env:
                        new = copy.deepcopy(env[n.id])
                        for x in ast.walk(new):
                            if hasattr(x, 'lineno'):
                                x.lineno, x.end_lineno = n.lineno, getattr(n, 'end_lineno', n.lineno)
                                x.col_offset, x.end_col_offset = n.col_offset, getattr(n, 'end_col_offset', n.col_offset)
                        me.count += 1
                        return new
                    return n
            if isinstance(nf, ast.Lambda):
                nf.body = T().visit(nf.body)
            else:
                nf.body = [T().visit(x) for x in nf.body]

    def _kills_deep(self, fnode):
        names, attrs, imp = set(), set(), False
        todo = [fnode]
        while todo:
            f = todo.pop()
            body = [f.body] if isinstance(f, ast.Lambda) else f.body
            n_, a_, i_ = self._kills(body)
            names |= n_
            attrs |= a_
            imp = imp or i_
            for n in ast.walk(f):
                if n is not f and isinstance(n, (ast.FunctionDef, ast.AsyncFunctionDef, ast.Lambda)):
                    todo.append(n)
        return names, attrs, imp

    def _block(self, stmts: List[ast.stmt], env: Env) -> Optional[Env]:
        for st in stmts:
            if env is None:
                # unreachable code after return / raise / break / continue: leave it alone
                return None
            env = self._stmt(st, env)
        return env

    @staticmethod
    def _merge(envs: List[Optional[Env]]) -> Optional[Env]:
        live = [e for e in envs if e is not None]
        if not live:
            return None
        out = dict(live[0])
        for e in live[1:]:
            out = {k: v for k, v in out.items() if k in e and ast.dump(e[k]) == ast.dump(v)}
        return out

    def _bind(self, env: Env, name: str, value: ast.expr) -> Env:
        if name in self.escaping:
            return env
        mn, _ = _mentions(value)
        if name in mn:
            return env
        env = dict(env)
        env[name] = value
        return env

    def _simple(self, st: ast.stmt, env: Env) -> Env:
        kills = self._kills([st])
        # a use of an alias in the same statement as something that kills it: evaluation order decides, leave it
        blocked = {k for k in env if k not in self._apply_kills({k: env[k]}, (set(), kills[1], kills[2]))}
        self._rewrite_children(st, env, blocked)
        gen: List[Tuple[str, ast.expr]] = []
        if isinstance(st, ast.Assign):
            names = [t.id for t in st.targets if isinstance(t, ast.Name)]
            chains = [t for t in st.targets if isinstance(t, ast.Attribute) and _is_chain(t, self.roots)]
            v = st.value
            if chains and len(names) + len(chains) == len(st.targets):
                # x = self.a = <expr> / self.a = x: the local and the attribute denote the same object afterwards
                tgt = copy.deepcopy(chains[-1])
                for x in ast.walk(tgt):
                    if isinstance(x, (ast.Attribute, ast.Name)):
                        x.ctx = ast.Load()
                for n in names:
                    gen.append((n, tgt))
                if isinstance(v, ast.Name) and v.id in self.roots and v.id not in self.params and v.id not in names and len(chains) == 1 \
                        and _chain(tgt)[0] != v.id:
                    gen.append((v.id, tgt))
            elif names and len(names) == len(st.targets):
                if _is_chain(v, self.roots) or _is_boolexpr(v, self.roots):
                    for n in names:
                        gen.append((n, v))
        elif isinstance(st, ast.AnnAssign) and isinstance(st.target, ast.Name) and st.value is not None:
            if _is_chain(st.value, self.roots) or _is_boolexpr(st.value, self.roots):
                gen.append((st.target.id, st.value))
        env = self._apply_kills(env, kills)
        for n, v in gen:
            # the fact holds after the statement: what the statement itself stored does not kill its own fact, but a call
            # on the right-hand side that may rebind the attribute does not either (the store happens last)
            env = self._bind(env, n, copy.deepcopy(v))
        return env

    def _stmt(self, st: ast.stmt, env: Env) -> Optional[Env]:
        if isinstance(st, (ast.FunctionDef, ast.AsyncFunctionDef, ast.ClassDef)):
            return self._apply_kills(env, ({st.name}, set(), False))
        if isinstance(st, (ast.Return, ast.Raise)):
            self._simple(st, env)
            return None
        if isinstance(st, (ast.Break, ast.Continue)):
            return None
        if isinstance(st, ast.If):
            k = self._kills([st.test])
            blocked = {x for x in env if x not in self._apply_kills({x: env[x]}, (set(), k[1], k[2]))}
            st.test = self._rewrite(st.test, env, blocked)
            env = self._apply_kills(env, k)
            a = self._block(st.body, dict(env))
            b = self._block(st.orelse, dict(env))
            return self._merge([a, b])
        if isinstance(st, (ast.While, ast.For, ast.AsyncFor)):
            if isinstance(st, ast.While):
                region = [st.test] + st.body
            else:
                k0 = self._kills([st.iter])
                blocked = {x for x in env if x not in self._apply_kills({x: env[x]}, (set(), k0[1], k0[2]))}
                st.iter = self._rewrite(st.iter, env, blocked)
                env = self._apply_kills(env, k0)
                region = [st.target] + st.body
            env_in = self._apply_kills(env, self._kills(region))
            if isinstance(st, ast.While):
                st.test = self._rewrite(st.test, env_in)
            else:
                self._rewrite_children(st.target, env_in, frozenset())
            self._block(st.body, dict(env_in))
            out = self._block(st.orelse, dict(env_in)) if st.orelse else env_in
            # leaving through break skips the else clause
            return self._merge([out, self._apply_kills(env_in, self._kills(st.orelse))]) if st.orelse else out
        if isinstance(st, ast.Try) or st.__class__.__name__ == 'TryStar':
            body_out = self._block(st.body, dict(env))
            env_h = self._apply_kills(env, self._kills(st.body))
            outs = []
            for h in st.handlers:
                eh = self._apply_kills(env_h, ({h.name} if h.name else set(), set(), False))
                outs.append(self._block(h.body, dict(eh)))
            outs.append(self._block(st.orelse, dict(body_out)) if body_out is not None and st.orelse else body_out)
            res = self._merge(outs)
            if st.finalbody:
                region = st.body + [x for h in st.handlers for x in h.body] + st.orelse
                env_f = self._apply_kills(env, self._kills(region))
                fin = self._block(st.finalbody, dict(env_f))
                if fin is None or res is None:
                    return None
                return self._apply_kills(res, self._kills(st.finalbody))
            return res
        if isinstance(st, (ast.With, ast.AsyncWith)):
            for it in st.items:
                k = self._kills([it.context_expr])
                blocked = {x for x in env if x not in self._apply_kills({x: env[x]}, (set(), k[1], k[2]))}
                it.context_expr = self._rewrite(it.context_expr, env, blocked)
                env = self._apply_kills(env, k)
                if it.optional_vars is not None:
                    env = self._apply_kills(env, self._kills([it.optional_vars]))
            return self._block(st.body, dict(env))
        if st.__class__.__name__ == 'Match':
            return self._apply_kills(env, self._kills([st]))
        return self._simple(st, env)
