"""C20 -- concurrent associations on one application entity are isolated.

Decided (sharing inventory, necessary conditions only): thread-local message ids, fresh
per-association state, who may write the entity's shared configuration, no aliasing of the
live context definition list, no mutation of module-level containers from association
threads, atomic creation of storage files.
NOT decided -- outside this family: behaviour under thread interleavings, independence of
failures."""
from __future__ import annotations

import ast
from typing import Dict, List, Set

from ..flow import attr_chain
from ..srcmodel import AnalysisError, FuncInfo, Repo, norm

MUTATORS = {'append', 'extend', 'insert', 'remove', 'pop', 'clear', 'update', 'add', 'discard', 'setdefault',
            'popitem', 'appendleft', 'popleft', 'sort', 'reverse', '__setitem__', '__delitem__'}
PER_ASSOC_CLASSES = [('asceprovider', 'Association'), ('asceprovider', 'AssociationAcceptor'),
                     ('asceprovider', 'AssociationRequester'), ('dulprovider', 'DULServiceProvider'),
                     ('fsm', 'StateMachine'), ('fsm', 'DIMSEDecoder'), ('dulprovider', 'Timer')]
AE_CONFIG = {'supported_ts', 'timeout', 'max_pdu_length', 'context_def_list', 'store_in_file', 'supported_scu',
             'supported_scp', 'local_ae', 'lock'}
CONFIG_API = {'__init__', 'add_scu', 'add_scp', 'update_context_def_list', '_build_context_def_list'}


IMMUTABLE_CALLS = ('frozenset', 'tuple', 'uid.UID', 'UID', 'str', 'int', 'bytes', 'float', 'bool', 'struct.Struct',
                   'namedtuple', 'collections.namedtuple', 'threading.local', 'threading.Lock', 'Lock', 're.compile',
                   'logging.getLogger', 'Status', 's', 'object', 'range', 'partial', 'functools.partial')


def is_mutable_expr(e: ast.expr) -> bool:
    if isinstance(e, (ast.Dict, ast.List, ast.Set, ast.ListComp, ast.DictComp, ast.SetComp)):
        return True
    if isinstance(e, ast.Call) and norm(e.func) in ('dict', 'list', 'set', 'collections.deque', 'deque', 'collections.defaultdict',
                                                    'defaultdict', 'collections.OrderedDict', 'bytearray'):
        return True
    return False


def is_shared_object_expr(e: ast.expr) -> bool:
    """module-level value that is a mutable object: a container, or an instance created by a call that is not
    known to produce an immutable / thread-safe value (e.g. ``Dataset()``)"""
    if is_mutable_expr(e):
        return True
    if isinstance(e, ast.Call):
        t = norm(e.func)
        return t not in IMMUTABLE_CALLS and not t.endswith('.UID') and not t.endswith('.Struct')
    return False


def mutations_of(node: ast.AST, names: Set[str]) -> List[str]:
    """mutating statements in ``node`` whose target container is a bare Name in ``names``"""
    out = []
    for n in ast.walk(node):
        if isinstance(n, (ast.Assign, ast.AugAssign, ast.Delete)):
            tgts = n.targets if isinstance(n, (ast.Assign, ast.Delete)) else [n.target]
            for t in tgts:
                if isinstance(t, ast.Subscript) and isinstance(t.value, ast.Name) and t.value.id in names:
                    out.append('%s at line %d' % (norm(t), n.lineno))
        if isinstance(n, ast.Call) and isinstance(n.func, ast.Attribute) and n.func.attr in MUTATORS \
                and isinstance(n.func.value, ast.Name) and n.func.value.id in names:
            out.append('%s() at line %d' % (norm(n.func), n.lineno))
        if isinstance(n, ast.Global):
            for g in n.names:
                if g in names:
                    out.append('global %s at line %d' % (g, n.lineno))
    return out


def call_graph(repo: Repo) -> Dict[str, Set[str]]:
    """name-based over-approximation: a call ``x.m(...)`` / ``m(...)`` may reach every package function named m"""
    by_name: Dict[str, List[FuncInfo]] = {}
    funcs = repo.all_functions()
    for f in funcs:
        by_name.setdefault(f.name, []).append(f)
    g: Dict[str, Set[str]] = {}
    for f in funcs:
        out = set()
        for n in ast.walk(f.node):
            if isinstance(n, ast.Call):
                nm = n.func.attr if isinstance(n.func, ast.Attribute) else (n.func.id if isinstance(n.func, ast.Name) else None)
                for t in by_name.get(nm, []):
                    out.add(t.key)
                # constructor: Class(...) -> __init__
                if nm and nm[:1].isupper():
                    for m in repo.modules.values():
                        if nm in m.classes:
                            init = m.classes[nm].find_method('__init__')
                            if init:
                                out.add(init.key)
                # callbacks wired through constructor arguments: get_file_cb <- AEBase.get_file and its overrides
                if nm == 'get_file_cb':
                    for t in by_name.get('get_file', []):
                        out.add(t.key)
        # table dispatch: StateMachine.action() calls whatever the transition table holds
        if f.key == 'fsm:StateMachine.action':
            import re as _re
            for t in funcs:
                if t.cls is not None and t.cls.name == 'StateMachine' and _re.match(r'^(ae|dt|ar|aa)_\d+$', t.name):
                    out.add(t.key)
        g[f.key] = out
    return g


def reachable(g: Dict[str, Set[str]], roots: Set[str]) -> Set[str]:
    seen = set()
    todo = list(roots)
    while todo:
        k = todo.pop()
        if k in seen:
            continue
        seen.add(k)
        todo.extend(g.get(k, ()))
    return seen


def _selfcheck():
    """zero-expected rules carry a positive example that must match on every run"""
    if not is_shared_object_expr(ast.parse('Dataset()', mode='eval').body) or is_shared_object_expr(ast.parse('threading.local()', mode='eval').body):
        raise AnalysisError('internal: shared-object classifier broken')
    t = ast.parse('TABLE = {}\ndef f(x):\n    TABLE[x] = 1\n    TABLE.update({})\n')
    if len(mutations_of(t.body[1], {'TABLE'})) != 2:
        raise AnalysisError('internal: module-level mutation detector does not fire on its positive example')
    if not is_mutable_expr(ast.parse('{}', mode='eval').body) or is_mutable_expr(ast.parse('frozenset(x)', mode='eval').body):
        raise AnalysisError('internal: mutability classifier broken')


def per_instance_problems(repo: Repo, c) -> List[str]:
    """H2 core (shared with C09.N6 and C11.Q6): mutable state of a per-association class is created per instance --
    no class-level mutable that is mutated through self without being re-bound in __init__, no attribute initialised
    with a module-level mutable."""
    probs: List[str] = []
    ini = c.methods.get('__init__')
    for k in c.mro():
        if k.module.name not in repo.modules:
            continue
        for attr, val in k.attrs.items():
            if is_mutable_expr(val):
                assigned = ini is not None and any(attr_chain(t) == ('self', attr) for n in ast.walk(ini.node)
                                                   if isinstance(n, ast.Assign) for t in n.targets)
                mutated = []
                for m in c.mro():
                    for fn in m.methods.values():
                        for n in ast.walk(fn.node):
                            if isinstance(n, ast.Call) and isinstance(n.func, ast.Attribute) and n.func.attr in MUTATORS \
                                    and attr_chain(n.func.value) == ('self', attr):
                                mutated.append('%s line %d' % (fn.qualname, n.lineno))
                            if isinstance(n, ast.Assign):
                                for t in n.targets:
                                    if isinstance(t, ast.Subscript) and attr_chain(t.value) == ('self', attr):
                                        mutated.append('%s line %d' % (fn.qualname, n.lineno))
                if mutated and not assigned:
                    probs.append('class-level %s %s.%s is shared by all instances and mutated through self (%s)'
                                 % (type(val).__name__.lower(), k.name, attr, ', '.join(mutated[:3])))
    if ini is not None:
        modmut = {n for n, vs in c.module.assigns.items() if is_mutable_expr(vs[-1])}
        for n in ast.walk(ini.node):
            if isinstance(n, ast.Assign) and isinstance(n.value, ast.Name) and n.value.id in modmut:
                probs.append('self attribute initialised with the module-level mutable %s' % n.value.id)
    return probs


COPY_FORMS = ('copy.copy(%s)', 'dict(%s)', '%s.copy()', 'copy.deepcopy(%s)')


def proposal_sources(repo, cls_name='AssociationRequester'):
    """How an association gets its ``self.context_def_list``: [(function, line, verdict)] with verdict
    'locked-copy' (``<ae>.copy_context_def_list()``, or a copy expression of ``<ae>.context_def_list`` evaluated inside
    ``with <ae>.lock:``), 'unlocked-copy', 'live' (the entity's own object) or 'other'."""
    c = repo.cls('asceprovider', cls_name)
    out = []
    for k in c.mro():
        for fi in k.methods.values():
            locked = set()
            for w in ast.walk(fi.node):
                if isinstance(w, ast.With) and any(norm(it.context_expr).endswith('.lock') for it in w.items):
                    for n in ast.walk(w):
                        locked.add(id(n))
            for n in ast.walk(fi.node):
                if isinstance(n, ast.Assign) and any(norm(t) == 'self.context_def_list' for t in n.targets):
                    v = norm(n.value)
                    if v.endswith('.copy_context_def_list()'):
                        out.append((fi, n.lineno, 'locked-copy'))
                        continue
                    src = None
                    for form in COPY_FORMS:
                        pre, post = form.split('%s')
                        if v.startswith(pre) and v.endswith(post) and v[len(pre):len(v) - len(post)].endswith('.context_def_list'):
                            src = v[len(pre):len(v) - len(post)]
                    if src is not None:
                        out.append((fi, n.lineno, 'locked-copy' if id(n) in locked else 'unlocked-copy'))
                    elif v in ('{}', 'dict()', 'None', 'collections.OrderedDict()'):
                        out.append((fi, n.lineno, 'empty'))      # a placeholder until the copy is taken
                    elif v.endswith('.context_def_list'):
                        out.append((fi, n.lineno, 'live'))
                    else:
                        out.append((fi, n.lineno, 'other'))
    return out


BLOCKING_ATTRS = ('receive', 'recv', 'recv_into', 'accept', 'connect', 'sendall', 'join', 'wait', 'sleep', 'select',
                  'serve_forever', 'handle_request')


def blocking_under_lock(repo):
    """calls that may wait for a peer or another thread made while an entity-wide lock is held: inside ``with <x>.lock:`` a call
    of a blocking primitive (socket / queue / thread waits, ``DULServiceProvider.receive``) -- directly, or through package
    functions it calls (followed by name through the call summary) -- serialises every association of the entity behind one peer"""
    # functions that block, transitively
    blocks = {}
    funcs = list(repo.all_functions())
    direct = {}
    calls = {}
    for fi in funcs:
        d = []
        cs = set()
        for n in ast.walk(fi.node):
            if isinstance(n, ast.Call):
                fn = n.func
                name = fn.attr if isinstance(fn, ast.Attribute) else fn.id if isinstance(fn, ast.Name) else None
                if name is None:
                    continue
                if name in BLOCKING_ATTRS and not (name in ('join',) and isinstance(fn, ast.Attribute) and isinstance(fn.value, ast.Constant)):
                    d.append((name, n.lineno))
                elif name == 'get' and isinstance(fn, ast.Attribute) and ('queue' in norm(fn.value).lower() or 'service_user' in norm(fn.value)) \
                        and not (n.args and isinstance(n.args[0], ast.Constant) and n.args[0].value is False):
                    d.append(('queue get', n.lineno))
                cs.add(name)
        direct[fi.key] = d
        calls[fi.key] = cs
    by_name = {}
    for fi in funcs:
        by_name.setdefault(fi.name, []).append(fi.key)
    may_block = {k for k, d in direct.items() if d}
    changed = True
    while changed:
        changed = False
        for k, cs in calls.items():
            if k in may_block:
                continue
            if any(t in may_block for c_ in cs for t in by_name.get(c_, [])):
                may_block.add(k)
                changed = True
    probs = []
    n_regions = 0
    for fi in funcs:
        for w in ast.walk(fi.node):
            if not (isinstance(w, ast.With) and any(norm(it.context_expr).endswith('.lock') for it in w.items)):
                continue
            n_regions += 1
            for st in w.body:
                for n in ast.walk(st):
                    if isinstance(n, ast.Call):
                        fn = n.func
                        name = fn.attr if isinstance(fn, ast.Attribute) else fn.id if isinstance(fn, ast.Name) else None
                        if name is None:
                            continue
                        if any(name == bn and ln == n.lineno for bn, ln in direct[fi.key]):
                            probs.append('%s line %d: %s() while %s is held' % (fi.key, n.lineno, name, norm(w.items[0].context_expr)))
                        elif any(t in may_block for t in by_name.get(name, [])) and name not in ('__init__',):
                            probs.append('%s line %d: %s() may wait for the peer (%s) while %s is held'
                                         % (fi.key, n.lineno, name, ', '.join(sorted({b for t in by_name.get(name, []) if t in may_block
                                                                                     for b, _l in direct.get(t, [])})[:3]) or 'through its callees',
                                            norm(w.items[0].context_expr)))
    return n_regions, sorted(set(probs))


ACCEPT_LOOP_METHODS = ('verify_request', 'get_request', 'process_request', 'handle_timeout', 'service_actions')
BLOCKING_SOCKET_CALLS = ('recv', 'recv_into', 'recvfrom', 'recvmsg', 'read', 'readline', 'send', 'sendall', 'connect', 'makefile')


def accept_thread_problems(repo, hier):
    """library fact (socketserver.BaseServer._handle_request_noblock): verify_request, process_request and get_request run in the
    thread that accepts connections, one connection after the other; with ThreadingMixIn only finish_request runs in the new
    thread.  -> (problems, number of such methods the package defines)"""
    from ..arith import CannotEvaluate, eval_value
    from ..sym import SymClient, empty_state
    probs = []
    n = 0
    for c in repo.all_classes():
        if not any('TCPServer' in b or 'BaseServer' in b or 'ThreadingMixIn' in b for k in c.mro() for b in k.ext_bases):
            continue
        for mname in ACCEPT_LOOP_METHODS:
            f = c.methods.get(mname)
            if f is None:
                continue
            n += 1

            def ev(call, callee, client, state):
                last = callee.rsplit('.', 1)[-1]
                if last in ('settimeout', 'setblocking'):
                    return 'mode'
                if last in BLOCKING_SOCKET_CALLS:
                    return 'io'
                return None
            cl = SymClient(repo, f, event_of=ev, hierarchy=hier, inline=repo.is_helper)
            cl.run(empty_state())
            for e, s in cl.log:
                if e.kind != 'io':
                    continue
                recv = e.callee.rsplit('.', 1)[0]
                if recv in ('self.socket',):
                    continue        # the listening socket: waiting on it is what the accept loop is for
                upto = s.trail[:s.trail.index(e)] if e in s.trail else s.trail
                modes = [m_ for m_ in upto if m_.kind == 'mode' and m_.callee.rsplit('.', 1)[0] == recv]
                nonblocking = False
                if modes:
                    last = modes[-1]
                    try:
                        v = eval_value(ast.parse(last.args[0], mode='eval').body, {}) if last.args else None
                    except (CannotEvaluate, SyntaxError, Exception):
                        v = None
                    if v is not None and not isinstance(v, str):
                        nonblocking = (v == 0) if last.callee.endswith('settimeout') else (not v)
                if not nonblocking:
                    probs.append('%s.%s calls %s at line %d with the connection in blocking mode (%s): the accept loop waits for this one '
                                 'peer' % (c.name, mname, e.callee, e.line,
                                           'mode last set by %s(%s)' % (modes[-1].callee.rsplit('.', 1)[-1], ', '.join(modes[-1].args)) if modes
                                           else 'no settimeout(0) / setblocking(False) before it on this path'))
    return sorted(set(probs)), n


def run(repo, rep):
    from ..pitfalls import memo_rule as _memo_rule
    _memo_rule(repo, rep, 'C20', 'C20.Z1')
    from ..pitfalls import log_rule as _log_rule
    _log_rule(repo, rep, 'C20', 'C20.Z2')
    from ..api_pitfalls import truth_rule as _truth_rule
    _truth_rule(repo, rep, 'C20', 'C20.Z4')
    from ..api_pitfalls import attribute_rule as _attribute_rule
    _attribute_rule(repo, rep, 'C20', 'C20.Z5')
    from ..api_pitfalls import pairing_rule as _pairing_rule
    _pairing_rule(repo, rep, 'C20', 'C20.Z6')
    rep.rule('C20.H8', 'data sets and command sets are encoded into a buffer that is created in the call, or held per thread and emptied '
             'before the first write: the bytes of a message never contain what another thread or an earlier, failed encode wrote '
             '(same analysis as C08.M7)', 1)
    from ..pitfalls import writer_reuse_problems as _wrp
    _sh, _st, _nw = _wrp(repo)
    rep.check(not (_sh or _st), 'C20.H8', 'dsutils:writers', repo.module('dsutils').relpath, '%d write sites: buffers fresh, or per-thread and '
              'emptied first' % _nw, '; '.join(_sh + _st))
    rep.rule('C20.H9', 'a descriptor has one owner: no socket / file object is built on ``x.fileno()`` of an object that stays alive (both '
             'would close the number, the second close hitting whichever association got it next); ownership moves with detach() or '
             'the descriptor is duplicated', 1)
    from ..api_pitfalls import descriptor_owner_problems as _dop
    _dp, _dn = _dop(repo)
    rep.check(not _dp, 'C20.H9', 'package:descriptor-owners', '', '%d object(s) built on a descriptor number, none on fileno() of a live object'
              % _dn, '; '.join(_dp[:3]))
    rep.rule('C20.H10', 'what an application handler returns is not changed in place by the service functions (it is the application\'s '
             'object, shared by the associations that get it): no store into it, no mutating method on it', 1)
    from ..svc_model import handler_result_mutations as _hrm
    _hp, _hn = _hrm(repo)
    rep.check(not _hp, 'C20.H10', 'sopclass:handler-results', repo.module('sopclass').relpath,
              '%d local(s) bound to handler results, none changed in place' % _hn, '; '.join(_hp[:3]))
    from ..fsm_model import exc_hierarchy as _exh
    _ap, _an = accept_thread_problems(repo, _exh(repo))
    rep.rule('C20.H11', 'the accept thread waits for no single peer: a method the socket server runs in its accept loop (verify_request, '
             'get_request, process_request, handle_timeout, service_actions) reads from / writes to the accepted connection only after '
             'putting it in non-blocking mode (settimeout(0) / setblocking(False)) on that path -- a blocking read there holds up every '
             'other association that is being opened', 1)
    rep.notes['accept_thread_methods'] = _an
    rep.check(not _ap, 'C20.H11', 'applicationentity:AE:accept-thread', repo.module('applicationentity').relpath,
              '%d accept-loop method(s) overridden, none blocks on a connection' % _an, '; '.join(_ap))
    _selfcheck()
    rep.assume('NOT DECIDED by this family: behaviour under concrete thread interleavings, independence of failures')
    rep.trust('CPython: threading.local gives per-thread attributes; dict/set single operations are atomic under the GIL; '
              'open(..., "x") creates atomically')
    rep.rule('C20.H1', '_new_msg_id reads and writes only attributes of a threading.local() object and counts 1, 2, 3, ...', 1)
    rep.rule('C20.H2', 'every mutable attribute of the per-association classes is created in __init__ from a fresh object or a '
             'parameter; no class-level mutable is mutated through an instance; no mutable default argument', 8)
    rep.rule('C20.H3', 'the entity\'s shared configuration is written only by the configuration API, which is not reachable '
             'from association threads; association-side code never writes through .ae', 2)
    rep.rule('C20.H3b', 'the live context definition list is never stored in or iterated by an association: only its copy '
             'taken under the lock', 2)
    rep.rule('C20.H6', 'no call that waits for a peer or another thread (socket / queue / thread waits, DUL receive -- directly or '
             'through the functions it calls) is made while an entity-wide lock is held: one slow peer would stall every other '
             'association of the entity', 1)
    rep.rule('C20.H4', 'no module-level or class-level container is mutated by a function reachable from an association thread', 1)
    rep.rule('C20.H5', 'storage files in the shared directory are created atomically (exclusive create)', 1)
    rep.rule('C20.H7', 'the server entity hands every accepted connection to a thread of its own: in the method resolution order of '
             'AE, process_request is the threading mix-in\'s, not the synchronous one of the socket server', 1)
    check_threaded_server(repo, rep)

    init = repo.module('__init__')
    # ---------------------------------------------------------------- H1
    f = repo.func('__init__', '_new_msg_id')
    rep.analysed(f)
    probs = []
    # the object the counter lives on: whatever module-level name the function stores ``.msg_id``-style attributes to
    tls_name = '_tls'
    roots_ = {attr_chain(t)[0] for n in ast.walk(f.node) if isinstance(n, (ast.Assign, ast.AugAssign))
              for t in (n.targets if isinstance(n, ast.Assign) else [n.target])
              if isinstance(t, ast.Attribute) and attr_chain(t) and len(attr_chain(t)) == 2 and attr_chain(t)[0] in init.assigns}
    if tls_name not in init.assigns and len(roots_) == 1:
        tls_name = next(iter(roots_))
    tls = init.assigns.get(tls_name, [None])[-1]

    def thread_local_object(e) -> bool:
        """``threading.local()`` or an instance of a package class derived from threading.local whose class body only binds
        immutable defaults (a mutable class attribute would be shared by all threads again)"""
        if e is None:
            return False
        if norm(e) in ('threading.local()', 'local()'):
            return True
        if isinstance(e, ast.Call) and not e.args and not e.keywords:
            try:
                r = repo.resolve_expr(e.func, init)
            except Exception:
                return False
            from ..srcmodel import ClassRef
            if isinstance(r, ClassRef):
                k = repo.cls(r.module, r.name)
                if any(b.split('.')[-1] == 'local' and 'threading' in b or b == 'local' for b in k.all_ext_bases()) and not k.methods:
                    return all(isinstance(v, ast.Constant) for v in k.attrs.values())
        return False
    if not thread_local_object(tls):
        probs.append('_tls is %s, not threading.local()' % (norm(tls) if tls is not None else 'missing'))
    for n in ast.walk(f.node):
        if isinstance(n, (ast.Assign, ast.AugAssign)):
            tgts = n.targets if isinstance(n, ast.Assign) else [n.target]
            for t in tgts:
                ch = attr_chain(t)
                if isinstance(t, ast.Name):
                    continue
                if not (ch and ch[0] == tls_name and len(ch) == 2):
                    probs.append('writes %s, which is not an attribute of the thread-local object' % norm(t))
        if isinstance(n, ast.Global):
            probs.append('uses global %s' % n.names)
    augs = [n for n in ast.walk(f.node) if isinstance(n, ast.AugAssign)]
    if len(augs) != 1 or not isinstance(augs[0].op, ast.Add) or norm(augs[0].value) != '1':
        probs.append('the counter is not incremented by exactly 1')
    ctr_attr = next((attr_chain(t)[1] for n in ast.walk(f.node) if isinstance(n, ast.AugAssign) for t in [n.target]
                     if isinstance(t, ast.Attribute) and attr_chain(t) and attr_chain(t)[0] == tls_name), 'msg_id')
    firsts = [n for n in ast.walk(f.node) if isinstance(n, ast.Assign) and norm(n.targets[0]) == '%s.%s' % (tls_name, ctr_attr)]
    if not firsts or norm(firsts[0].value) != '1':
        probs.append('the first id of a thread is not 1')
    rets = [norm(n.value) for n in ast.walk(f.node) if isinstance(n, ast.Return) and n.value is not None]
    if any(r != '%s.%s' % (tls_name, ctr_attr) for r in rets) or not rets:
        probs.append('returns %s' % rets)
    rep.check(not probs, 'C20.H1', '__init__:_new_msg_id:thread-local', f.loc(), 'thread-local counter 1, 2, 3, ...', '; '.join(probs))

    # ---------------------------------------------------------------- H2
    for mod, cname in PER_ASSOC_CLASSES:
        c = repo.cls(mod, cname)
        ini = c.methods.get('__init__')
        if ini is not None:
            rep.analysed(ini)
        probs = per_instance_problems(repo, c)
        rep.check(not probs, 'C20.H2', '%s:%s:per-instance-state' % (mod, cname), c.loc(),
                  'state is created per instance', '; '.join(probs))
    from ..pitfalls import shared_default_objects
    probs = shared_default_objects(repo)
    rep.check(not probs, 'C20.H2', 'package:mutable-default-arguments', 'pynetdicom2', 'no mutable default argument', '; '.join(probs))

    # ---------------------------------------------------------------- H3
    g = call_graph(repo)
    roots = set()
    acc = repo.cls('asceprovider', 'AssociationAcceptor')
    roots.add(acc.find_method('handle').key)
    roots.add(repo.cls('dulprovider', 'DULServiceProvider').find_method('run').key)
    sc = repo.module('sopclass')
    for fn in sc.functions.values():
        if fn.name.endswith('_scp') or fn.name.endswith('_scu') or fn.name == '_send_response':
            roots.add(fn.key)
    for cls_ in sc.classes.values():
        for m in cls_.methods.values():
            roots.add(m.key)
    roots.add(repo.cls('applicationentity', 'AEBase').find_method('request_association').key)
    reach = reachable(g, roots)
    rep.notes['association_reachable_functions'] = len(reach)
    ae = repo.cls('applicationentity', 'AEBase')
    writers = {}
    for c in repo.all_classes():
        if not c.is_subclass_of(ae):
            continue
        for fn in c.methods.values():
            for n in ast.walk(fn.node):
                fld = None
                if isinstance(n, (ast.Assign, ast.AugAssign)):
                    for t in (n.targets if isinstance(n, ast.Assign) else [n.target]):
                        ch = attr_chain(t.value if isinstance(t, ast.Subscript) else t)
                        if ch and ch[0] == 'self' and len(ch) == 2 and ch[1] in AE_CONFIG:
                            fld = ch[1]
                if isinstance(n, ast.Call) and isinstance(n.func, ast.Attribute) and n.func.attr in MUTATORS:
                    ch = attr_chain(n.func.value)
                    if ch and ch[0] == 'self' and len(ch) == 2 and ch[1] in AE_CONFIG:
                        fld = ch[1]
                if fld:
                    writers.setdefault(fn.key, set()).add(fld)
    probs = []
    for k, flds in sorted(writers.items()):
        name = k.rsplit('.', 1)[-1]
        if name not in CONFIG_API:
            probs.append('%s writes shared configuration %s outside the configuration API' % (k, sorted(flds)))
        if k in reach and name != '__init__':
            probs.append('%s (writes %s) is reachable from an association thread' % (k, sorted(flds)))
    rep.check(not probs and writers, 'C20.H3', 'applicationentity:AEBase:config-writers', ae.loc(),
              '%d writer functions, all configuration API, none reachable from %d association-side functions' % (len(writers), len(reach)),
              '; '.join(probs) or 'no writer found')
    probs = []
    for fi in repo.all_functions():
        if fi.module.name not in ('asceprovider', 'sopclass', 'dulprovider', 'fsm', 'dimsemessages'):
            continue
        for n in ast.walk(fi.node):
            tgt = None
            if isinstance(n, (ast.Assign, ast.AugAssign, ast.Delete)):
                for t in (n.targets if isinstance(n, (ast.Assign, ast.Delete)) else [n.target]):
                    base = t.value if isinstance(t, ast.Subscript) else t
                    ch = attr_chain(base)
                    if ch and 'ae' in ch[:-1] and ch[-1] in AE_CONFIG:
                        tgt = norm(t)
            if isinstance(n, ast.Call) and isinstance(n.func, ast.Attribute) and n.func.attr in MUTATORS:
                ch = attr_chain(n.func.value)
                if ch and 'ae' in ch[:-1] and ch[-1] in AE_CONFIG:
                    tgt = norm(n.func)
            if tgt:
                probs.append('%s modifies the entity\'s shared configuration: %s (line %d)' % (fi.key, tgt, n.lineno))
    rep.check(not probs, 'C20.H3', 'package:association-side-writes-through-ae', 'pynetdicom2',
              'association-side code never writes through .ae', '; '.join(probs))

    # ---------------------------------------------------------------- H3b
    cp = ae.find_method('copy_context_def_list')
    rep.analysed(cp)
    src = norm(cp.node)
    withs = [n for n in ast.walk(cp.node) if isinstance(n, ast.With)]
    ok = bool(withs) and norm(withs[0].items[0].context_expr) == 'self.lock' and \
        any(isinstance(n, ast.Return) and norm(n.value) in ('copy.copy(self.context_def_list)', 'dict(self.context_def_list)',
                                                            'self.context_def_list.copy()') for n in ast.walk(withs[0]))
    rep.check(ok, 'C20.H3b', 'applicationentity:AEBase.copy_context_def_list', cp.loc(), 'returns a copy taken under the lock',
              'copy_context_def_list does not return a copy taken under self.lock')
    probs = []
    for fi in repo.all_functions():
        if fi.module.name not in ('asceprovider', 'sopclass', 'dulprovider', 'fsm', '__init__'):
            continue
        for n in ast.walk(fi.node):
            if isinstance(n, ast.Assign) and isinstance(n.value, ast.Attribute) and n.value.attr == 'context_def_list' \
                    and 'ae' in (attr_chain(n.value) or ()):
                probs.append('%s stores the live context_def_list (%s) at line %d' % (fi.key, norm(n.value), n.lineno))
            if isinstance(n, (ast.For, ast.comprehension)):
                it = n.iter
                for sub in ast.walk(it):
                    ch = attr_chain(sub) if isinstance(sub, ast.Attribute) else None
                    if ch and ch[-1] == 'context_def_list' and ('ae' in ch or 'local_ae' in ch):
                        probs.append('%s iterates the live context_def_list at line %d' % (fi.key, getattr(n, 'lineno', getattr(it, 'lineno', 0))))
    srcs = proposal_sources(repo)
    for fi_, line_, verdict in srcs:
        if verdict not in ('locked-copy', 'empty'):
            probs.append('%s line %d: the association\'s context definition list is %s' % (
                fi_.key, line_, {'unlocked-copy': 'copied without holding the entity lock', 'live': 'the entity\'s live object',
                                 'other': 'not a copy of the entity\'s list'}[verdict]))
    if not any(v_ == 'locked-copy' for _f, _l, v_ in srcs):
        probs.append('AssociationRequester does not take its proposal from a copy of the entity\'s list')
    rep.check(not probs, 'C20.H3b', 'package:no-alias-of-context-def-list', 'pynetdicom2',
              'associations work on the copy only', '; '.join(probs))

    # ---------------------------------------------------------------- H6
    n_reg, p6 = blocking_under_lock(repo)
    rep.check(not p6, 'C20.H6', 'package:no-blocking-call-under-lock', 'pynetdicom2',
              'nothing waits for a peer inside the %d lock region(s)' % n_reg, '; '.join(p6[:5]))

    # ---------------------------------------------------------------- H4
    probs = []
    n_checked = 0
    for fi in repo.all_functions():
        if fi.key not in reach:
            continue
        n_checked += 1
        m = fi.module
        names = {n for n, vs in m.assigns.items() if is_shared_object_expr(vs[-1])}
        # local aliases of module-level objects: ``meta = FILE_META`` followed by ``meta.x = ...``
        aliases = {}
        for n in ast.walk(fi.node):
            if isinstance(n, ast.Assign) and isinstance(n.value, ast.Name) and n.value.id in names:
                for t in n.targets:
                    if isinstance(t, ast.Name):
                        aliases[t.id] = n.value.id
        for n in ast.walk(fi.node):
            if isinstance(n, (ast.Assign, ast.AugAssign)):
                for t in (n.targets if isinstance(n, ast.Assign) else [n.target]):
                    if isinstance(t, ast.Attribute) and isinstance(t.value, ast.Name) and \
                            (t.value.id in names or t.value.id in aliases) and t.value.id not in ('_tls',):
                        shared = aliases.get(t.value.id, t.value.id)
                        probs.append('%s writes attribute %s of the module-level object %s (line %d): every association thread '
                                     'shares that one object' % (fi.key, t.attr, shared, n.lineno))
        names = names | set(aliases)
        # module-level containers of other modules reached through an alias: mod.NAME[...] = / mod.NAME.update()
        for n in ast.walk(fi.node):
            tgt = None
            if isinstance(n, (ast.Assign, ast.AugAssign, ast.Delete)):
                for t in (n.targets if isinstance(n, (ast.Assign, ast.Delete)) else [n.target]):
                    if isinstance(t, ast.Subscript):
                        ch = attr_chain(t.value)
                        if ch and len(ch) == 2 and ch[0] in repo.modules and ch[1] in repo.modules[ch[0]].assigns:
                            tgt = norm(t)
            if isinstance(n, ast.Call) and isinstance(n.func, ast.Attribute) and n.func.attr in MUTATORS:
                ch = attr_chain(n.func.value)
                if ch and len(ch) == 2 and ch[0] in repo.modules and ch[1] in repo.modules[ch[0]].assigns:
                    tgt = norm(n.func)
            if tgt:
                probs.append('%s mutates %s' % (fi.key, tgt))
        for mu in mutations_of(fi.node, names):
            probs.append('%s mutates module-level %s' % (fi.key, mu))
        # class-level containers through the class name
        for c in m.classes.values():
            cl_names = {a for a, v in c.attrs.items() if is_mutable_expr(v)}
            for n in ast.walk(fi.node):
                if isinstance(n, ast.Call) and isinstance(n.func, ast.Attribute) and n.func.attr in MUTATORS:
                    ch = attr_chain(n.func.value)
                    if ch and len(ch) == 2 and ch[0] == c.name and ch[1] in cl_names:
                        probs.append('%s mutates class-level %s.%s' % (fi.key, c.name, ch[1]))
    from ..pitfalls import closure_shared_objects
    probs += closure_shared_objects(repo, ('sopclass', 'asceprovider', 'applicationentity', '__init__', 'dimsemessages'))
    rep.check(not probs, 'C20.H4', 'package:module-level-mutables', 'pynetdicom2',
              'none of %d association-reachable functions mutates a module- or class-level container' % n_checked, '; '.join(sorted(set(probs))))

    # ---------------------------------------------------------------- H5
    gsf = repo.func('__init__', '_get_storage_file')
    rep.analysed(gsf)
    from .c15 import atomic_claim_problems
    probs = atomic_claim_problems(repo)
    rep.check(not probs, 'C20.H5', '__init__:_get_storage_file:atomic-create', gsf.loc(),
              'storage file created with exclusive mode', '; '.join(probs))


# external server classes: their method resolution orders (CPython socketserver)
_EXT_MRO = {
    'object': ['object'],
    'socketserver.BaseServer': ['socketserver.BaseServer', 'object'],
    'socketserver.TCPServer': ['socketserver.TCPServer', 'socketserver.BaseServer', 'object'],
    'socketserver.UDPServer': ['socketserver.UDPServer', 'socketserver.TCPServer', 'socketserver.BaseServer', 'object'],
    'socketserver.ThreadingMixIn': ['socketserver.ThreadingMixIn', 'object'],
    'socketserver.ForkingMixIn': ['socketserver.ForkingMixIn', 'object'],
    'socketserver.ThreadingTCPServer': ['socketserver.ThreadingTCPServer', 'socketserver.ThreadingMixIn', 'socketserver.TCPServer',
                                        'socketserver.BaseServer', 'object'],
    'socketserver.ForkingTCPServer': ['socketserver.ForkingTCPServer', 'socketserver.ForkingMixIn', 'socketserver.TCPServer',
                                      'socketserver.BaseServer', 'object'],
}
_DEFINES_PROCESS_REQUEST = {'socketserver.BaseServer': 'synchronous', 'socketserver.ThreadingMixIn': 'thread per request',
                            'socketserver.ForkingMixIn': 'process per request'}


def _c3(repo, c, depth=0):
    """C3 linearisation of a package class over package and socketserver classes: list of ClassInfo / dotted external names;
    None when a base is not known"""
    if depth > 20:
        return None
    seqs = []
    direct = []
    for b in c.base_exprs:
        try:
            r = repo.resolve_expr(b, c.module)
        except Exception:
            r = None
        from ..srcmodel import ClassRef
        if isinstance(r, ClassRef):
            k = repo.cls(r.module, r.name)
            lin = _c3(repo, k, depth + 1)
            if lin is None:
                return None
            seqs.append(list(lin))
            direct.append(k)
        else:
            name = norm(b)
            name = {'six.moves.socketserver.' + n.split('.')[-1]: n for n in _EXT_MRO}.get(name, name)
            if name not in _EXT_MRO:
                if name == 'object':
                    name = 'object'
                else:
                    return None
            seqs.append(list(_EXT_MRO[name]))
            direct.append(name)
    if not direct:
        seqs.append(['object'])
        direct.append('object')
    seqs.append(list(direct))
    out = [c]
    ident = lambda x: x if isinstance(x, str) else x.key
    while any(seqs):
        seqs = [s_ for s_ in seqs if s_]
        for s_ in seqs:
            cand = s_[0]
            if not any(ident(cand) in [ident(y) for y in t_[1:]] for t_ in seqs):
                break
        else:
            return None      # inconsistent hierarchy
        out.append(cand)
        for s_ in seqs:
            if s_ and ident(s_[0]) == ident(cand):
                del s_[0]
    return out


def check_threaded_server(repo, rep):
    """H7: each incoming association is served in a thread of its own."""
    ae = repo.cls('applicationentity', 'AE')
    lin = _c3(repo, ae)
    if lin is None:
        rep.undecided('C20.H7', '%s: a base class of the server entity is neither a class of the package nor one of socketserver\'s' % ae.loc())
        return
    first = None
    for k in lin:
        if isinstance(k, str):
            if k in _DEFINES_PROCESS_REQUEST:
                first = (k, _DEFINES_PROCESS_REQUEST[k])
                break
        elif 'process_request' in k.methods:
            first = (k.key, 'own')
            break
    names = [k if isinstance(k, str) else k.name for k in lin]
    if first is None:
        rep.undecided('C20.H7', '%s: no process_request in the resolution order %s' % (ae.loc(), names))
        return
    if first[1] == 'own':
        rep.undecided('C20.H7', '%s: %s defines process_request itself; how it dispatches a request is not modelled' % (ae.loc(), first[0]))
        return
    rep.check(first[1] != 'synchronous', 'C20.H7', 'applicationentity:AE:threaded-dispatch', ae.loc(),
              'process_request resolves to %s (%s): resolution order %s' % (first[0], first[1], ' -> '.join(names)),
              'process_request resolves to %s (%s) in the resolution order %s: the threading mix-in comes after the server class, so every '
              'association runs in the accept loop and the entity serves one association at a time' % (first[0], first[1], ' -> '.join(names)))
