"""Oracle: DICOM PS3.8 section 9.2 (upper layer state machine), transcribed by hand.

Independent of the code under analysis.  States Sta1..Sta13 and events Evt1..Evt19
are written as integers 1..13 / 1..19 (the *standard's* numbering); the checker maps
them to the library's ``States.STA_n`` / ``Events.EVT_n`` names, not to its integer
values.

PDU kinds are named by the standard's PDU names; ``PDU_CLASS`` says which library
class represents each (read from pdu.py docstrings "PS 3.8 9.3.x").
"""

# PDU kind -> (PDU type code per PS3.8 9.3.2-9.3.8, library class name in pdu.py)
PDU_KINDS = {
    'A-ASSOCIATE-RQ': (0x01, 'AAssociateRqPDU'),
    'A-ASSOCIATE-AC': (0x02, 'AAssociateAcPDU'),
    'A-ASSOCIATE-RJ': (0x03, 'AAssociateRjPDU'),
    'P-DATA-TF': (0x04, 'PDataTfPDU'),
    'A-RELEASE-RQ': (0x05, 'AReleaseRqPDU'),
    'A-RELEASE-RP': (0x06, 'AReleaseRpPDU'),
    'A-ABORT': (0x07, 'AAbortPDU'),
}

# Table 9-10, event rows: cause of each event.
#   ('pdu', kind)        -- that PDU received on the transport connection
#   ('primitive', kind)  -- the local user issued the request/response primitive that is
#                           carried by that PDU kind
#   ('transport', what)  -- local transport service
#   ('timer',)           -- ARTIM expiry
#   ('invalid',)         -- unrecognized or invalid PDU received
EVENTS = {
    1: ('primitive', 'A-ASSOCIATE-RQ'),      # A-ASSOCIATE request
    2: ('transport', 'connect-confirm'),
    3: ('pdu', 'A-ASSOCIATE-AC'),
    4: ('pdu', 'A-ASSOCIATE-RJ'),
    5: ('transport', 'connect-indication'),
    6: ('pdu', 'A-ASSOCIATE-RQ'),
    7: ('primitive', 'A-ASSOCIATE-AC'),      # A-ASSOCIATE response (accept)
    8: ('primitive', 'A-ASSOCIATE-RJ'),      # A-ASSOCIATE response (reject)
    9: ('primitive', 'P-DATA-TF'),           # P-DATA request
    10: ('pdu', 'P-DATA-TF'),
    11: ('primitive', 'A-RELEASE-RQ'),       # A-RELEASE request
    12: ('pdu', 'A-RELEASE-RQ'),
    13: ('pdu', 'A-RELEASE-RP'),
    14: ('primitive', 'A-RELEASE-RP'),       # A-RELEASE response
    15: ('primitive', 'A-ABORT'),            # A-ABORT request
    16: ('pdu', 'A-ABORT'),
    17: ('transport', 'closed'),
    18: ('timer',),
    19: ('invalid',),
}


def _row(evt, cells):
    return {(evt, sta): act for sta, act in cells.items()}


def _many(states, act):
    return {s: act for s in states}


# Table 9-10: (event, state) -> action id.  Blank cells of the standard are absent.
TABLE = {}
TABLE.update(_row(1, {1: 'AE-1'}))
TABLE.update(_row(2, {4: 'AE-2'}))
TABLE.update(_row(3, {2: 'AA-1', 3: 'AA-8', 5: 'AE-3', **_many(range(6, 13), 'AA-8'), 13: 'AA-6'}))
TABLE.update(_row(4, {2: 'AA-1', 3: 'AA-8', 5: 'AE-4', **_many(range(6, 13), 'AA-8'), 13: 'AA-6'}))
TABLE.update(_row(5, {1: 'AE-5'}))
TABLE.update(_row(6, {2: 'AE-6', 3: 'AA-8', **_many(range(5, 13), 'AA-8'), 13: 'AA-7'}))
TABLE.update(_row(7, {3: 'AE-7'}))
TABLE.update(_row(8, {3: 'AE-8'}))
TABLE.update(_row(9, {6: 'DT-1', 8: 'AR-7'}))
TABLE.update(_row(10, {2: 'AA-1', 3: 'AA-8', 5: 'AA-8', 6: 'DT-2', 7: 'AR-6',
                       **_many(range(8, 13), 'AA-8'), 13: 'AA-6'}))
TABLE.update(_row(11, {6: 'AR-1'}))
TABLE.update(_row(12, {2: 'AA-1', 3: 'AA-8', 5: 'AA-8', 6: 'AR-2', 7: 'AR-8',
                       **_many(range(8, 13), 'AA-8'), 13: 'AA-6'}))
TABLE.update(_row(13, {2: 'AA-1', 3: 'AA-8', 5: 'AA-8', 6: 'AA-8', 7: 'AR-3', 8: 'AA-8',
                       9: 'AA-8', 10: 'AR-10', 11: 'AR-3', 12: 'AA-8', 13: 'AA-6'}))
TABLE.update(_row(14, {8: 'AR-4', 9: 'AR-9', 12: 'AR-4'}))
TABLE.update(_row(15, {3: 'AA-1', 4: 'AA-2', **_many(range(5, 13), 'AA-1')}))
TABLE.update(_row(16, {2: 'AA-2', 3: 'AA-3', **_many(range(5, 13), 'AA-3'), 13: 'AA-2'}))
TABLE.update(_row(17, {2: 'AA-5', **_many(range(3, 13), 'AA-4'), 13: 'AR-5'}))
TABLE.update(_row(18, {2: 'AA-2', 13: 'AA-2'}))
TABLE.update(_row(19, {2: 'AA-1', 3: 'AA-8', **_many(range(5, 13), 'AA-8'), 13: 'AA-7'}))

# cross-check of the transcription: cells per event row
ROW_COUNTS = [1, 1, 11, 11, 1, 11, 1, 1, 2, 11, 1, 11, 11, 3, 10, 11, 12, 2, 11]
assert [sum(1 for (e, _s) in TABLE if e == i) for i in range(1, 20)] == ROW_COUNTS, 'oracle transcription'
assert len(TABLE) == 123

# Tables 9-6 .. 9-9: effects of each action, as alternatives (most have one).
# effect vocabulary:
#   send: set of PDU kinds put on the wire
#   indicate: set of kinds handed to the local user ('P-DATA' = reassembled DIMSE data;
#             'A-P-ABORT' is represented by the library as an A-ABORT PDU object)
#   close: transport connection closed by the provider
#   connect: transport connect request issued
#   timer: net effect on ARTIM: 'run' (started or restarted), 'stop' (stopped if running), None
#   next: next state
#   when: None or 'requestor' / 'acceptor' (AR-8)
def _act(send=(), indicate=(), close=False, connect=False, timer=None, next=None, when=None):
    return dict(send=frozenset(send), indicate=frozenset(indicate), close=close, connect=connect,
                timer=timer, next=next, when=when)


ACTIONS = {
    'AE-1': [_act(connect=True, next=4)],
    'AE-2': [_act(send=['A-ASSOCIATE-RQ'], next=5)],
    'AE-3': [_act(indicate=['A-ASSOCIATE-AC'], next=6)],
    'AE-4': [_act(indicate=['A-ASSOCIATE-RJ'], close=True, next=1)],
    'AE-5': [_act(timer='run', next=2)],
    'AE-6': [_act(timer='stop', indicate=['A-ASSOCIATE-RQ'], next=3),
             _act(send=['A-ASSOCIATE-RJ'], timer='run', next=13)],
    'AE-7': [_act(send=['A-ASSOCIATE-AC'], next=6)],
    'AE-8': [_act(send=['A-ASSOCIATE-RJ'], timer='run', next=13)],
    'DT-1': [_act(send=['P-DATA-TF'], next=6)],
    'DT-2': [_act(indicate=['P-DATA'], next=6)],
    'AR-1': [_act(send=['A-RELEASE-RQ'], next=7)],
    'AR-2': [_act(indicate=['A-RELEASE-RQ'], next=8)],
    'AR-3': [_act(indicate=['A-RELEASE-RP'], close=True, next=1)],
    'AR-4': [_act(send=['A-RELEASE-RP'], timer='run', next=13)],
    'AR-5': [_act(timer='stop', next=1)],
    'AR-6': [_act(indicate=['P-DATA'], next=7)],
    'AR-7': [_act(send=['P-DATA-TF'], next=8)],
    'AR-8': [_act(indicate=['A-RELEASE-RQ'], next=9, when='requestor'),
             _act(indicate=['A-RELEASE-RQ'], next=10, when='acceptor')],
    'AR-9': [_act(send=['A-RELEASE-RP'], next=11)],
    'AR-10': [_act(indicate=['A-RELEASE-RP'], next=12)],
    'AA-1': [_act(send=['A-ABORT'], timer='run', next=13)],
    'AA-2': [_act(timer='stop', close=True, next=1)],
    'AA-3': [_act(indicate=['A-ABORT'], close=True, next=1)],
    'AA-4': [_act(indicate=['A-ABORT'], next=1)],          # A-P-ABORT indication
    'AA-5': [_act(timer='stop', next=1)],
    'AA-6': [_act(next=13)],
    'AA-7': [_act(send=['A-ABORT'], next=13)],
    'AA-8': [_act(send=['A-ABORT'], indicate=['A-ABORT'], timer='run', next=13)],
}
assert len(ACTIONS) == 28

# A-ABORT source field required by the action text (PS3.8 Tables 9-9): AA-1 service-user (0),
# AA-8 service-provider (2).  AA-7 does not say.
ABORT_SOURCE = {'AA-8': 2, 'AA-1': 0}   # checked where the action itself builds the PDU (not for the user's A-ABORT request)

# States in which ARTIM runs (Table 9-1..9-5 state definitions + actions that arm it)
ARTIM_STATES = frozenset([2, 13])
# States with no transport connection
NO_TRANSPORT_STATES = frozenset([1])
# States in which the association has been indicated to / requested by the local user,
# i.e. the user must be told when it goes away (Sta3..Sta12; Sta4/5 requestor waiting)
USER_INVOLVED_STATES = frozenset(range(3, 13))


def action_method_name(action_id: str) -> str:
    """'AA-1' -> 'aa_1' (the library names its action methods after the standard)."""
    return action_id.lower().replace('-', '_')
