"""C01 -- PDU encode/decode round trip for every PDU, item and sub-item.

Decided: codec symmetry for all field values and item lists: same struct layout on both
sides, each packed attribute unpacked into the same attribute, bytes read per variable part
= bytes written (affine identity in the symbolic lengths), extents agree, dispatch literals
select the right classes, containers cannot swallow or leave bytes of their successor,
decoder loops advance.  Not decided: value-level equality (strip/UID/str conversions and
struct range checks are CPython/pydicom behaviour)."""
from ..codec_rules import check_roundtrip
from ..layout import LayoutExtractor


def run(repo, rep):
    from ..pitfalls import memo_rule as _memo_rule
    _memo_rule(repo, rep, 'C01', 'C01.Z1')
    from ..pitfalls import log_rule as _log_rule
    _log_rule(repo, rep, 'C01', 'C01.Z2')
    from ..api_pitfalls import truth_rule as _truth_rule
    _truth_rule(repo, rep, 'C01', 'C01.Z4')
    from ..api_pitfalls import attribute_rule as _attribute_rule
    _attribute_rule(repo, rep, 'C01', 'C01.Z5')
    lx = LayoutExtractor(repo)
    rep.trust('CPython struct / bytes / io.BytesIO semantics; pydicom uid.UID is a str subclass')
    rep.assume('A1: text fields (AE titles, UIDs, names) are ASCII, so len(x.encode()) == len(x) (PS3.8 requires it)')
    rep.rule('C01.O1', 'fixed part: the struct packed is the struct unpacked; literal read sizes equal struct sizes', 23)
    rep.rule('C01.O2', 'field correspondence: i-th packed attribute = attribute the i-th unpacked value is stored into', 23)
    rep.rule('C01.O3', 'variable parts: same order and attribute; bytes read (with the encoder\'s value of every length '
             'field substituted) = bytes written', 23)
    rep.rule('C01.O4', 'extent: bytes emitted = total_length() = bytes consumed', 23)
    rep.rule('C01.O9', 'value conversions: the decoder applies only the inverse of what the encoder applies (same text codec, NUL '
             'padding of fixed-width text stripped, nothing else stripped, sliced or re-cased)', 23)
    rep.rule('C01.O6', 'dispatch agreement: every type literal selects the class with that type; every codec is reachable', 27)
    rep.rule('C01.O7', 'container bound: child loops are bounded by a declared length, a closed type set disjoint from '
             'what may follow, or the end of the PDU buffer', 5)
    rep.rule('C01.O8', 'decoder loops consume input on every iteration', 5)
    rep.rule('C01.O10', 'decoders are functions of the bytes alone: no decode() (or helper it calls) writes a class-level or '
             'module-level mutable object, so what one PDU decodes to does not depend on earlier PDUs', 1)
    from ..pitfalls import shared_state_writes
    from ..srcmodel import AnalysisError
    dec_funcs = []
    for c in lx.classes.values():
        for nm in ('decode', 'sub_items'):
            m = c.methods.get(nm)
            if m is not None:
                dec_funcs.extend(repo.helper_closure(m))
    seen_k = set()
    dec_funcs = [f for f in dec_funcs if not (f.key in seen_k or seen_k.add(f.key))]
    p10 = shared_state_writes(repo, dec_funcs)
    rep.check(not p10, 'C01.O10', 'pdu:decoders:stateless', 'pynetdicom2/pdu.py',
              '%d decoder functions write no shared object' % len(dec_funcs), '; '.join(p10))
    rep.rule('C01.O11', 'the look-ahead the container loops use restores the stream position on every path and returns the '
             'integer value of the next byte (None only at the end of the stream)', 1)
    from ..codec_rules import peek_problems
    pk, npaths, loc = peek_problems(repo)
    rep.check(not pk, 'C01.O11', 'pdu:_next_type:peek', loc.split(':')[0],
              '%d paths: one byte read, stepped back, its value returned' % npaths, '; '.join(pk))
    rep.rule('C01.O12', 'encoders and constructors are total on representable values: no guard in front of the packer (a raise '
             'reachable in __init__ / encode, helpers included) fires for a value its field can carry -- folded at 0 and at the '
             'largest value of the field\'s struct code', 20)
    from ..codec_rules import guard_problems
    for c in lx.concrete_classes():
        try:
            gp, n_raise = guard_problems(lx, c)
        except AnalysisError:
            continue        # the layout itself is not read: reported by the round-trip rules below
        rep.check(not gp, 'C01.O12', 'pdu:%s:guards' % c.name, c.loc(), '%d raise path(s), none for a representable value' % n_raise,
                  '; '.join(gp))
    try:
        check_roundtrip(lx, rep, 'C01')
    except AnalysisError:
        if not p10:
            raise       # the shape is not understood and nothing else was found: cannot decide
        # the stateful decoder is already reported; its shape (cache look-ups, early returns) need not be interpretable
    for a in lx.assumptions:
        rep.assume(a)
