"""C17 -- every SCP response correlates with its request (message id, UIDs, context).

Decided per response construction site by provenance of each response field and by path
rules (answered on every path, handler inside an EventHandlingError handler)."""
from __future__ import annotations

import ast
from typing import Dict, List

from ..oracles import ps3_7
from ..srcmodel import AnalysisError, norm
from ..svc_model import (ServiceAnalysis, classify, is_response_token, message_class, property_tag, status_constant)
from ..sym import is_token, loop_body_outcomes, token_class

# provider callables and the request type they serve (plain functions: fixed by the SOP classes they
# are registered for; dispatcher methods: looked up in MessageDispatcher.message_to_method)
SITES = [
    ('verification_scp', 0x0030, 'msg', 'ctx.id'),
    ('storage_scp', 0x0001, 'msg', 'ctx.id'),
    ('qr_find_scp', 0x0020, 'msg', 'ctx.id'),
    ('qr_move_scp', 0x0021, 'msg', 'ctx.id'),
    ('StorageCommitment.n_action', None, 'msg', 'ctx.id'),
    ('StorageCommitment.n_event_report', None, 'msg', 'ctx.id'),
    ('qr_get_scu', 0x0001, 'asce.receive()[0]', 'asce.receive()[1]'),
]
# PS3.4 J.3: the Storage Commitment Push Model SOP instance is the well-known instance for conformant requests
WELL_KNOWN_INSTANCE_OK = {('StorageCommitment.n_action', 'affected_sop_instance_uid'): "'1.2.840.10008.1.20.1.1'"}   # PS3.4 J.3.5 well-known instance


def run(repo, rep):
    from ..pitfalls import memo_rule as _memo_rule
    _memo_rule(repo, rep, 'C17', 'C17.Z1')
    from ..pitfalls import log_rule as _log_rule
    _log_rule(repo, rep, 'C17', 'C17.Z2')
    from ..api_pitfalls import truth_rule as _truth_rule
    _truth_rule(repo, rep, 'C17', 'C17.Z4')
    from ..api_pitfalls import attribute_rule as _attribute_rule
    _attribute_rule(repo, rep, 'C17', 'C17.Z5')
    from ..api_pitfalls import pairing_rule as _pairing_rule
    _pairing_rule(repo, rep, 'C17', 'C17.Z6')
    from ..pitfalls import zero_rule as _zero_rule
    _zero_rule(repo, rep, 'C17', 'C17.Z3')
    sc = repo.module('sopclass')
    rep.rule('C17.P8', 'no service function reads an ``except ... as name`` variable after its handler ended (the name is unbound '
             'there: the provider would raise instead of answering)', 1)
    from ..pitfalls import unbound_after_handler
    p8 = []
    n8 = 0
    for f8 in repo.all_functions():
        if f8.module.name in ('sopclass',) or f8.key.startswith('asceprovider:AssociationAcceptor.'):
            n8 += 1
            p8 += unbound_after_handler(f8)
    rep.check(not p8, 'C17.P8', 'sopclass:services:handler-names', sc.relpath, '%d functions' % n8, '; '.join(p8))
    rep.trust('PS3.7 9.3 / 10.3: response carries Message ID Being Responded To, Affected SOP Class (and Instance) UID of the '
              'request; response command field = request | 8000H')
    rep.assume('an application handler signals failure only through EventHandlingError (documented in exceptions.py); any '
               'other exception is not the library\'s to handle')
    rep.rule('C17.P9', 'every response has a command set of its own: a message constructed over another message\'s command set and then '
             'written to takes a deep copy -- the same Dataset, or Dataset.copy() / copy.copy() of it, holds the same DataElement objects, '
             'and the property setters change those in place, so responses queued for sending change with the next one', 1)
    from ..svc_model import shared_command_set_problems
    p9_, n9_ = shared_command_set_problems(repo)
    rep.check(not p9_, 'C17.P9', 'sopclass:responses:own-command-set', sc.relpath,
              '%d message(s) constructed over an existing command set, none shares elements it writes' % n9_, '; '.join(p9_[:3]))
    # P10: what the provider demands of an N-EVENT-REPORT is what the standard makes mandatory
    from ..oracles import ps3_4
    rep.trust('PS3.4 Table J.3-2 as transcribed in pnd_static/oracles/ps3_4.py')
    rep.rule('C17.P10', 'a table of the attributes a storage commitment event report must carry, by Event Type ID, demands nothing the '
             'standard makes conditional (PS3.4 J.3-2: in a type 2 report the Referenced SOP Sequence is 1C -- absent when nothing was '
             'committed): a well-formed report is answered with the handler\'s outcome, not refused', 1)
    p10, n10 = [], 0
    cands = []
    for nm_, vals_ in sc.assigns.items():
        cands.append((nm_, repo.try_fold(vals_[-1], sc), None))
    for c_ in sc.classes.values():
        for nm_, e_ in c_.attrs.items():
            cands.append(('%s.%s' % (c_.name, nm_), repo.try_fold(e_, sc, c_), c_))
    for nm_, v_, _c in cands:
        if not (isinstance(v_, dict) and v_ and all(isinstance(k_, int) and not isinstance(k_, bool) for k_ in v_)
                and all(isinstance(x_, (tuple, list, set, frozenset)) and all(isinstance(y_, str) for y_ in x_) for x_ in v_.values())):
            continue
        if not any(set(x_) & ps3_4.COMMITMENT_EVENT_ATTRIBUTES for x_ in v_.values()) or not set(v_) <= {1, 2}:
            continue
        n10 += 1
        for k_, req_ in sorted(v_.items()):
            extra = set(req_) & ps3_4.COMMITMENT_EVENT_CONDITIONAL.get(k_, frozenset())
            if extra:
                p10.append('%s[%d] demands %s, which PS3.4 J.3-2 makes conditional (1C) for event type %d: a report without it is '
                           'well-formed' % (nm_, k_, ', '.join(sorted(extra)), k_))
    rep.notes['event_requirement_tables'] = n10
    rep.check(not p10, 'C17.P10', 'sopclass:commitment-event-information', sc.relpath,
              '%d table(s) of required event information, none stricter than the standard' % n10, '; '.join(p10))
    rep.rule('C17.P1', 'each response is sent on the presentation context the request arrived on', 7)
    rep.rule('C17.P2', 'Message ID Being Responded To <- the request\'s Message ID', 7)
    rep.rule('C17.P3', 'Affected SOP Class UID <- the request\'s SOP class (or the context\'s abstract syntax); Affected SOP '
             'Instance UID <- the request\'s where the response has one', 7)
    rep.rule('C17.P4', 'response class command field = request command field | 8000H', 7)
    rep.rule('C17.P5', 'status <- int(handler result), or a failure-class constant on the EventHandlingError edge; every handler '
             'call (and every advance of a handler\'s iterator) is inside such a handler', 7)
    rep.rule('C17.P6', 'every path from entry to a normal exit sends a response; exactly one final response', 7)
    rep.rule('C17.P7', 'every field written on a response is backed by a keyword of that class\'s command_fields', 7)

    m2m = {}
    md = repo.cls('sopclass', 'MessageDispatcher')
    if 'message_to_method' in md.attrs:
        m2m = repo.try_fold(md.attrs['message_to_method'], sc, md) or {}
    from .c08 import pydicom_group0
    kw2tag = pydicom_group0()
    tag2kw = {v: k for k, v in kw2tag.items()}

    for qual, reqcode, reqterm, ctxterm in SITES:
        f = repo.func('sopclass', qual)
        rep.analysed(f)
        key = 'sopclass:%s' % qual
        loc = f.loc()
        if reqcode is None:
            name = qual.split('.')[-1]
            # PS3.7 Table E.1-1 request code of the DIMSE service the method is named after
            reqcode = {'n_event_report': 0x0100, 'n_get': 0x0110, 'n_set': 0x0120, 'n_action': 0x0130,
                       'n_create': 0x0140, 'n_delete': 0x0150}[name]
        a = ServiceAnalysis(repo, f, with_yield_exc=False)
        sends = [(e, s) for e, s in a.sends() if e.args and is_response_token(e.args[0])]
        if qual == 'qr_get_scu':
            sends = [(e, s) for e, s in sends if token_class(e.args[0]) == 'CStoreRSPMessage']
        p1, p2, p3, p4, p5, p7 = [], [], [], [], [], []
        if not sends:
            p1.append('no response is ever sent')
        for e, s in sends:
            tok = e.args[0]
            cls = message_class(repo, tok)
            from ..svc_model import response_fields
            fl = response_fields(e, s, tok)
            # P1
            if e.args[1] != ctxterm:
                p1.append('%s sent on context %s, the request arrived on %s' % (cls.name, e.args[1], ctxterm))
            # P2
            mid = fl.get('message_id_being_responded_to')
            if mid != '%s.message_id' % reqterm:
                p2.append('%s: Message ID Being Responded To is %s, expected the request\'s message id' %
                          (cls.name, mid if mid is not None else 'never set (left at the constructor default)'))
            # P3
            sop = fl.get('sop_class_uid')
            if sop not in ('%s.sop_class_uid' % reqterm, 'ctx.sop_class'):
                p3.append('%s: Affected SOP Class UID is %s, expected the request\'s SOP class' %
                          (cls.name, sop if sop is not None else 'never set'))
            fields = repo.try_fold(cls.attrs.get('command_fields'), cls.module, cls) or []
            if 'AffectedSOPInstanceUID' in fields:
                inst = fl.get('affected_sop_instance_uid')
                okc = WELL_KNOWN_INSTANCE_OK.get((qual, 'affected_sop_instance_uid'))
                if inst != '%s.affected_sop_instance_uid' % reqterm and not (okc and inst == okc):
                    p3.append('%s: Affected SOP Instance UID is %s, expected the request\'s' % (cls.name, inst if inst is not None else 'never set'))
            # P4
            cf = repo.try_fold(cls.find_attr('command_field')[1], cls.module, cls)
            if cf != (reqcode | 0x8000):
                p4.append('%s (command field %04XH) answers a request of type %04XH' % (cls.name, cf or 0, reqcode))
            # P5
            stt = fl.get('status')
            in_handler = any(cn.startswith('exc:EventHandlingError') for cn in e.conds)
            if stt is None:
                p5.append('%s sent without a status' % cls.name)
            else:
                const = status_constant(repo, stt)
                if in_handler:
                    if const is None:
                        p5.append('on the EventHandlingError edge the status is %s, not a constant' % stt)
                    elif classify(repo, const[0], const[1] or cls.name) != 'Failure':
                        p5.append('on the EventHandlingError edge the status %04XH is %s, not a failure' %
                                  (const[0], classify(repo, const[0], const[1] or cls.name)))
                else:
                    from_handler = ('on_receive_' in stt or 'on_commitment_' in stt)
                    if not (stt.startswith('int(') and (from_handler or const is not None)):
                        p5.append('status is %s: neither int(handler result) nor a status constant' % stt)
                    if const is not None and not from_handler and qual in ('verification_scp', 'storage_scp'):
                        p5.append('status is the constant %s although the handler returned one' % stt)
            # P7
            for fld in fl:
                if fld.startswith('@') or fld in ('data_set', '_data_set'):
                    continue
                tag = property_tag(repo, cls, fld)
                if tag is None:
                    p7.append('%s.%s is not a message property' % (cls.name, fld))
                    continue
                kw = tag2kw.get((tag[0] << 16) | tag[1])
                if kw not in fields:
                    p7.append('%s.%s writes element %s (%s) which the class does not create: KeyError when the response is built'
                              % (cls.name, fld, tag, kw))
        # P5 sibling rule: handler calls inside an EventHandlingError handler
        for e, s in a.log:
            if e.kind == 'handler':
                pass
        unguarded = sorted({e2 for s, how in a.finals if how == 'raise:EventHandlingError' for e2 in ['x']})
        if any(how == 'raise:EventHandlingError' for s, how in a.finals):
            p5.append('an EventHandlingError raised by the application handler (or by its result iterator) is not caught here: '
                      'the request stays unanswered and the exception ends the association loop')
        # P6
        p6 = []
        n_norm = 0
        for s, how in a.finals:
            if how == 'raise:AttributeError':
                p6.append('a path ends with AttributeError before the final response is sent: a generator-only method (close / send / '
                          'throw) is called on the iterable the application handler returned, which need not be a generator')
            if how.startswith('raise'):
                continue
            n_norm += 1
            rs = [e for e in s.trail if e.kind == 'send' and e.args and is_response_token(e.args[0])]
            if qual == 'qr_get_scu':
                continue
            finals_ = []
            for e in rs:
                stt = e.fields(e.args[0]).get('status', '')
                const = status_constant(repo, stt)
                pending = const is not None and classify(repo, const[0], const[1] or token_class(e.args[0])) == 'Pending'
                per_item = 'ITEM(' in stt
                if not pending and not per_item:
                    finals_.append(e)
            if not rs:
                p6.append('a path returns without sending any response [%s]' % ' '.join(s.conds)[:160])
            elif len(finals_) != 1:
                p6.append('%d final responses on one path [%s]' % (len(finals_), ' '.join(s.conds)[:160]))
        if qual == 'qr_get_scu':
            # per received C-STORE-RQ exactly one C-STORE-RSP: per-iteration analysis
            loops = a.loops()
            if not loops:
                raise AnalysisError('qr_get_scu has no receive loop')
            o = loop_body_outcomes(a.client, loops[0])
            outs = list(o.fall) + list(o.cont)
            n_store = 0
            for st_ in outs:
                from ..sym import cond_eq
                is_store = cond_eq(st_.conds, 'asce.receive()[0].command_field', 'dimsemessages.CStoreRQMessage.command_field', fold=lambda e_: repo.try_fold(e_, repo.module('sopclass')))
                if not is_store:
                    continue
                n_store += 1
                rs = [e for e in st_.trail if e.kind == 'send' and e.args and token_class(e.args[0]) == 'CStoreRSPMessage']
                if len(rs) != 1:
                    p6.append('%d C-STORE responses for one received C-STORE request' % len(rs))
            if n_store == 0:
                p6.append('no path handles a received C-STORE request')
        rep.check(not p1, 'C17.P1', key + ':context', loc, 'sent on %s (%d send paths)' % (ctxterm, len(sends)), '; '.join(sorted(set(p1))))
        rep.check(not p2, 'C17.P2', key + ':message-id', loc, 'Message ID Being Responded To <- request message id', '; '.join(sorted(set(p2))))
        rep.check(not p3, 'C17.P3', key + ':sop-uids', loc, 'SOP class (and instance) repeated from the request', '; '.join(sorted(set(p3))))
        rep.check(not p4, 'C17.P4', key + ':response-type', loc, 'response type = %04XH | 8000H' % reqcode, '; '.join(sorted(set(p4))))
        rep.check(not p5, 'C17.P5', key + ':status', loc, 'status from the handler, failure constant on EventHandlingError', '; '.join(sorted(set(p5))))
        rep.check(not p6, 'C17.P6', key + ':answered', loc, 'every normal path answers; one final response (%d paths)' % n_norm, '; '.join(sorted(set(p6))))
        rep.check(not p7, 'C17.P7', key + ':fields-exist', loc, 'all written fields are elements of the response class', '; '.join(sorted(set(p7))))

    # dispatch table of MessageDispatcher: codes are request codes, methods exist on StorageCommitment
    probs = []
    want = {0x0001: 'c_store', 0x0020: 'c_find', 0x0010: 'c_get', 0x0021: 'c_move', 0x0030: 'c_echo', 0x0100: 'n_event_report',
            0x0110: 'n_get', 0x0120: 'n_set', 0x0130: 'n_action', 0x0140: 'n_create', 0x0150: 'n_delete'}
    for code, name in sorted(m2m.items()):
        if want.get(code) != name:
            probs.append('command field %04XH dispatched to %s, PS3.7 Table E.1-1: %s' % (code, name, want.get(code)))
    gm = md.find_method('get_method')
    rep.analysed(gm)
    if 'self.message_to_method[msg.command_field]' not in norm(gm.node):
        probs.append('get_method does not look the method up by the message\'s command field')
    rep.check(not probs, 'C17.P4', 'sopclass:MessageDispatcher.message_to_method', md.loc(),
              '%d request codes dispatched to the method of the same DIMSE service' % len(m2m), '; '.join(probs))
