"""Obligations, verdicts, known-findings matching, evidence files, exit codes."""
from __future__ import annotations

import json
import os
import time
from dataclasses import dataclass, field
from typing import Any, Dict, List, Optional

from .srcmodel import AnalysisError

VERIF_DIR = os.path.dirname(os.path.dirname(os.path.abspath(__file__)))
EVIDENCE_DIR = os.environ.get('VERIF_EVIDENCE_DIR') or os.path.join(VERIF_DIR, 'evidence')
KNOWN_FILE = os.path.join(VERIF_DIR, 'known_findings.json')

PASS, VIOLATION, KNOWN = 'pass', 'violation', 'known'


@dataclass
class Obligation:
    rule: str            # e.g. "C04.T3"
    construct: str       # "module:qualname[:detail]" -- no line numbers
    verdict: str
    loc: str = ''        # file:line for the reader
    what: str = ''       # diagnosis / what was shown

    def key(self):
        return (self.rule, self.construct)

    def as_dict(self):
        return {'rule': self.rule, 'construct': self.construct, 'verdict': self.verdict,
                'loc': self.loc, 'what': self.what}


class Report:
    """Collects the obligations of one property check."""

    def __init__(self, prop: str):
        self.prop = prop
        self.obligations: List[Obligation] = []
        self.functions = set()
        self.assumptions: List[str] = []
        self.trusted: List[str] = []
        self.notes: Dict[str, Any] = {}
        self.min_counts: Dict[str, int] = {}
        self.rule_texts: Dict[str, str] = {}
        self.undecided_rules: List[str] = []

    def undecided(self, rule: str, reason: str):
        """A rule whose anchor is not in a shape the analysis reads.  The other rules still run (a violation they find is
        reported); without one the run ends as ANALYSIS-ERROR: no verdict on the property."""
        self.undecided_rules.append('%s: %s' % (rule, reason))

    def rule(self, rule: str, text: str, min_count: int = 1):
        """Declare a rule, its statement and the vacuity guard."""
        self.rule_texts[rule] = text
        self.min_counts[rule] = min_count

    def ok(self, rule, construct, loc='', what=''):
        self.obligations.append(Obligation(rule, construct, PASS, loc, what))

    def bad(self, rule, construct, loc='', what=''):
        self.obligations.append(Obligation(rule, construct, VIOLATION, loc, what))

    def check(self, cond, rule, construct, loc='', ok='', bad=''):
        if cond:
            self.ok(rule, construct, loc, ok)
        else:
            self.bad(rule, construct, loc, bad or ok)
        return bool(cond)

    def analysed(self, f):
        self.functions.add(f.key if hasattr(f, 'key') else str(f))

    def assume(self, text):
        if text not in self.assumptions:
            self.assumptions.append(text)

    def trust(self, text):
        if text not in self.trusted:
            self.trusted.append(text)

    def count(self, rule) -> int:
        return sum(1 for o in self.obligations if o.rule == rule)


def load_known() -> List[dict]:
    if not os.path.exists(KNOWN_FILE):
        return []
    with open(KNOWN_FILE) as f:
        return json.load(f).get('findings', [])


def finish(rep: Report, tier: str, seed: int, t0: float, consulted: Dict[str, str],
           extra_cov: Optional[dict] = None) -> int:
    """Match known findings, print verdict lines, write evidence; return exit code."""
    # vacuity guards: a *pass* needs the confirmed number of instances.  When a violation of an unlisted kind was
    # found the run fails anyway and the guard is moot (a rule module may stop early once the code it would go on to
    # interpret is shown to be broken)
    known0 = [k for k in load_known() if k.get('property') == rep.prop and k.get('status') == 'known']
    has_unlisted = any(o.verdict == VIOLATION and not any(k.get('rule') == o.rule and k.get('construct') == o.construct for k in known0)
                       for o in rep.obligations)
    if rep.undecided_rules and not has_unlisted:
        raise AnalysisError('undecided ' + '; '.join(rep.undecided_rules))
    for rule, n in rep.min_counts.items():
        c = rep.count(rule)
        if c < n and not has_unlisted:
            raise AnalysisError('rule %s matched %d instance(s), fewer than the %d confirmed by hand '
                                '-- refusing a vacuous pass' % (rule, c, n))
    known = [k for k in load_known() if k.get('property') == rep.prop and k.get('status') == 'known']
    matched = []
    unlisted = []
    for o in rep.obligations:
        if o.verdict != VIOLATION:
            continue
        hit = None
        for k in known:
            if k.get('rule') == o.rule and k.get('construct') == o.construct:
                hit = k
                break
        if hit is not None:
            o.verdict = KNOWN
            matched.append((o, hit))
        else:
            unlisted.append(o)
    os.makedirs(os.path.join(EVIDENCE_DIR, 'violations'), exist_ok=True)
    # stale violation files of this property are removed first
    vdir = os.path.join(EVIDENCE_DIR, 'violations')
    for fn in os.listdir(vdir):
        if fn.startswith(rep.prop + '-'):
            try:
                os.remove(os.path.join(vdir, fn))
            except OSError:
                pass
    for o, k in matched:
        print('KNOWN-FINDING: property=%s %s %s: %s' % (rep.prop, o.rule, o.construct, k.get('what', o.what)))
    for i, o in enumerate(unlisted):
        path = os.path.join(vdir, '%s-%d.json' % (rep.prop, i))
        with open(path, 'w') as f:
            json.dump({'property': rep.prop, **o.as_dict(),
                       'rule_text': rep.rule_texts.get(o.rule, '')}, f, indent=1)
        print('VIOLATION property=%s replay=%s' % (rep.prop, path))
        print('  %s  rule %s  construct %s' % (o.loc, o.rule, o.construct))
        print('  %s' % o.what)
    n_obl = len(rep.obligations)
    n_pass = sum(1 for o in rep.obligations if o.verdict == PASS)
    distinct = len({o.construct for o in rep.obligations})
    samples = []
    seen_rules = set()
    for o in rep.obligations:
        if o.rule not in seen_rules:
            seen_rules.add(o.rule)
            samples.append(o.as_dict())
    for o in unlisted[:10]:
        samples.append(o.as_dict())
    per_rule = {}
    for o in rep.obligations:
        d = per_rule.setdefault(o.rule, {'instances': 0, 'pass': 0, 'violation': 0, 'known': 0})
        d['instances'] += 1
        d[o.verdict] += 1
    for r, d in per_rule.items():
        d['text'] = rep.rule_texts.get(r, '')
        d['min_instances'] = rep.min_counts.get(r, 0)
    cov = {
        'explanation': ('Static analysis of the current working tree of %s: %d obligations '
                        'from %d rules evaluated on %d functions/tables; each obligation names a '
                        'construct and the rule instance decided for all inputs/paths of that '
                        'construct. See DESIGN.md for what each rule proves and does not.'
                        % (os.environ.get('VERIF_REPO', '/repo'), n_obl, len(per_rule), len(rep.functions))),
        'obligations': n_obl,
        'discharged': n_pass,
        'evaluations': n_obl,
        'distinct_nontrivial': distinct,
        'rule': 'one obligation per (rule, construct); constructs are enumerated from the parsed '
                'source (classes, table cells, call sites, CFG paths); distinct = distinct constructs',
        'samples': samples,
        'rules': per_rule,
        'functions_analysed': sorted(rep.functions),
        'files': consulted,
        'known_findings_matched': [{'rule': o.rule, 'construct': o.construct} for o, _ in matched],
        'trusted_base': rep.trusted,
        'checker_cmd': 'python -m pnd_static.check --property %s --tier %s' % (rep.prop, tier),
        'exhaustive': True,
    }
    cov.update(rep.notes)
    if extra_cov:
        cov.update(extra_cov)
    ev = {
        'property_id': rep.prop,
        'tier': tier,
        'seed': seed,
        'level': 'other',
        'coverage': cov,
        'assumptions': rep.assumptions,
        'wall_s': round(time.time() - t0, 3),
        'violations': len(unlisted),
    }
    os.makedirs(EVIDENCE_DIR, exist_ok=True)
    with open(os.path.join(EVIDENCE_DIR, rep.prop + '.json'), 'w') as f:
        json.dump(ev, f, indent=1, sort_keys=False)
    print('%s: %d obligations, %d pass, %d known finding(s), %d violation(s) [%d functions, %.2fs]'
          % (rep.prop, n_obl, n_pass, len(matched), len(unlisted), len(rep.functions), time.time() - t0))
    return 1 if unlisted else 0
