"""Evaluation of an extracted integer *term* (not of program code): the width / length expressions the
rules extract are closed arithmetic over one or two symbols; evaluating the term at chosen points of the
symbol's domain (boundary values of the protocol field) decides inequalities the affine normal form cannot
express (``or``-defaults, rounding, min/max).  Only the operators below are understood; anything else raises
CannotEvaluate and the rule reports that it cannot decide."""
from __future__ import annotations

import ast
from typing import Any, Dict


class CannotEvaluate(Exception):
    pass


def eval_term(e: ast.AST, env: Dict[str, Any]) -> Any:
    if isinstance(e, ast.Expression):
        return eval_term(e.body, env)
    if isinstance(e, ast.Constant) and isinstance(e.value, (int, bool)) or (isinstance(e, ast.Constant) and e.value is None):
        return e.value
    if isinstance(e, (ast.Name, ast.Attribute)):
        k = ast.unparse(e)
        if k in env:
            return env[k]
        raise CannotEvaluate(k)
    if isinstance(e, ast.BinOp):
        a, b = eval_term(e.left, env), eval_term(e.right, env)
        if not isinstance(a, int) or not isinstance(b, int):
            raise CannotEvaluate('non-integer operand')
        try:
            if isinstance(e.op, ast.Add):
                return a + b
            if isinstance(e.op, ast.Sub):
                return a - b
            if isinstance(e.op, ast.Mult):
                return a * b
            if isinstance(e.op, ast.FloorDiv):
                return a // b
            if isinstance(e.op, ast.Mod):
                return a % b
            if isinstance(e.op, ast.BitAnd):
                return a & b
            if isinstance(e.op, ast.BitOr):
                return a | b
            if isinstance(e.op, ast.RShift):
                return a >> b
            if isinstance(e.op, ast.LShift) and b < 64:
                return a << b
        except ZeroDivisionError:
            raise CannotEvaluate('division by zero')
        raise CannotEvaluate(type(e.op).__name__)
    if isinstance(e, ast.UnaryOp):
        v = eval_term(e.operand, env)
        if isinstance(e.op, ast.USub):
            return -v
        if isinstance(e.op, ast.Not):
            return not v
        if isinstance(e.op, ast.Invert):
            return ~v
        raise CannotEvaluate('unary')
    if isinstance(e, ast.BoolOp):
        r = None
        for v in e.values:
            r = eval_term(v, env)
            if isinstance(e.op, ast.Or) and r:
                return r
            if isinstance(e.op, ast.And) and not r:
                return r
        return r
    if isinstance(e, ast.IfExp):
        return eval_term(e.body, env) if eval_term(e.test, env) else eval_term(e.orelse, env)
    if isinstance(e, ast.Compare) and len(e.ops) == 1:
        a, b = eval_term(e.left, env), eval_term(e.comparators[0], env)
        op = e.ops[0]
        try:
            if isinstance(op, ast.Eq):
                return a == b
            if isinstance(op, ast.NotEq):
                return a != b
            if isinstance(op, ast.Lt):
                return a < b
            if isinstance(op, ast.LtE):
                return a <= b
            if isinstance(op, ast.Gt):
                return a > b
            if isinstance(op, ast.GtE):
                return a >= b
            if isinstance(op, ast.Is):
                return a is b
            if isinstance(op, ast.IsNot):
                return a is not b
        except TypeError:
            raise CannotEvaluate('comparison')
    if isinstance(e, ast.Call) and isinstance(e.func, ast.Name) and e.func.id in ('min', 'max', 'int', 'abs') and not e.keywords:
        args = [eval_term(a, env) for a in e.args]
        if any(not isinstance(a, int) for a in args) or not args:
            raise CannotEvaluate('call arguments')
        return {'min': min, 'max': max, 'int': lambda x: int(x), 'abs': abs}[e.func.id](*args)
    raise CannotEvaluate(type(e).__name__)


# --------------------------------------------------------------------------- byte / text terms
_BYTES_METHODS = {'decode', 'strip', 'rstrip', 'lstrip', 'find', 'rfind', 'index', 'rindex', 'partition', 'rpartition', 'split',
                  'rsplit', 'replace', 'upper', 'lower', 'ljust', 'rjust', 'center', 'startswith', 'endswith', 'count', 'zfill',
                  'title', 'swapcase', 'capitalize', 'join', 'isalnum', 'isdigit'}
_STR_METHODS = _BYTES_METHODS - {'decode'} | {'encode', 'format'}
_IDENTITY_CALLS = {'uid.UID', 'UID', 'pydicom.uid.UID', 'six.text_type', 'six.binary_type', 'six.ensure_str', 'six.ensure_binary',
                   'six.ensure_text'}


class Lazy:
    """The value of ``filter(..)`` / ``map(..)`` / a generator expression: an iterator object.  It is true whatever it will
    yield, has no len(), and can be gone through once."""
    def __init__(self, items):
        self._items = list(items)
        self._used = False

    def __iter__(self):
        if self._used:
            return iter(())
        self._used = True
        return iter(self._items)

    def __bool__(self):
        return True


def eval_value(e: ast.AST, env: Dict[str, Any]) -> Any:
    """Constant folding of a conversion term over bytes / str / int constants (whitelisted pure builtins only).
    Exceptions a conversion would raise on that constant (UnicodeError, ValueError, IndexError) propagate."""
    if isinstance(e, ast.Expression):
        return eval_value(e.body, env)
    if isinstance(e, ast.ListComp):
        return list(eval_iter(e, env))
    if isinstance(e, ast.GeneratorExp):
        return Lazy(eval_iter(e, env))
    if isinstance(e, ast.Call) and isinstance(e.func, ast.Name) and e.func.id in ('filter', 'map') and len(e.args) == 2 and not e.keywords:
        seq = eval_value(e.args[1], env)
        if not isinstance(seq, (list, tuple, Lazy)):
            raise CannotEvaluate('%s over %s' % (e.func.id, type(seq).__name__))
        f = e.args[0]
        if isinstance(f, ast.Constant) and f.value is None and e.func.id == 'filter':
            return Lazy(x for x in seq if x)
        if isinstance(f, ast.Name) and f.id in ('bool', 'int', 'abs'):
            fn_ = {'bool': bool, 'int': int, 'abs': abs}[f.id]
            return Lazy((x for x in seq if fn_(x)) if e.func.id == 'filter' else (fn_(x) for x in seq))
        if isinstance(f, ast.Lambda) and len(f.args.args) == 1 and not (f.args.vararg or f.args.kwarg or f.args.kwonlyargs or f.args.defaults):
            p_ = f.args.args[0].arg
            vals = [(x, eval_value(f.body, dict(env, **{p_: x}))) for x in seq]
            return Lazy((x for x, v in vals if v) if e.func.id == 'filter' else (v for x, v in vals))
        raise CannotEvaluate('%s function' % e.func.id)
    if isinstance(e, ast.Call) and isinstance(e.func, ast.Name) and e.func.id in ('list', 'tuple', 'sorted', 'any', 'all', 'sum', 'set', 'frozenset') \
            and len(e.args) == 1 and not e.keywords:
        seq = eval_value(e.args[0], env)
        if not isinstance(seq, (list, tuple, Lazy, range, set, frozenset)):
            raise CannotEvaluate('%s of %s' % (e.func.id, type(seq).__name__))
        return {'list': list, 'tuple': tuple, 'sorted': sorted, 'any': any, 'all': all, 'sum': sum, 'set': set, 'frozenset': frozenset}[e.func.id](seq)
    if isinstance(e, ast.Constant):
        return e.value
    if isinstance(e, (ast.Name, ast.Attribute)):
        k = ast.unparse(e)
        if k in env:
            return env[k]
        if isinstance(e, ast.Name) and e.id in ('True', 'False', 'None'):
            return {'True': True, 'False': False, 'None': None}[e.id]
        raise CannotEvaluate(k)
    if isinstance(e, (ast.Tuple, ast.List)):
        vals = [eval_value(x, env) for x in e.elts]
        return tuple(vals) if isinstance(e, ast.Tuple) else vals
    if isinstance(e, ast.BinOp):
        a, b = eval_value(e.left, env), eval_value(e.right, env)
        if isinstance(e.op, ast.Add) and type(a) is type(b) and isinstance(a, (bytes, str, int, tuple, list)):
            return a + b
        if isinstance(e.op, ast.Mult) and (isinstance(a, int) or isinstance(b, int)) and \
                isinstance(a, (bytes, str, int)) and isinstance(b, (bytes, str, int)):
            n = a if isinstance(a, int) else b
            if isinstance(n, int) and abs(n) > 1 << 16 and not (isinstance(a, int) and isinstance(b, int)):
                raise CannotEvaluate('repeat count')
            return a * b
        if isinstance(a, int) and isinstance(b, int):
            return eval_term(ast.BinOp(left=ast.Constant(value=a), op=e.op, right=ast.Constant(value=b)), {})
        raise CannotEvaluate('binary operator on %s / %s' % (type(a).__name__, type(b).__name__))
    if isinstance(e, ast.UnaryOp):
        v = eval_value(e.operand, env)
        if isinstance(e.op, ast.Not):
            return not v
        if isinstance(e.op, ast.USub) and isinstance(v, int):
            return -v
        if isinstance(e.op, ast.Invert) and isinstance(v, int) and not isinstance(v, bool):
            return ~v
        if isinstance(e.op, ast.UAdd) and isinstance(v, int):
            return +v
        raise CannotEvaluate('unary')
    if isinstance(e, ast.BoolOp):
        r = None
        for v in e.values:
            r = eval_value(v, env)
            if isinstance(e.op, ast.Or) and r:
                return r
            if isinstance(e.op, ast.And) and not r:
                return r
        return r
    if isinstance(e, ast.IfExp):
        return eval_value(e.body, env) if eval_value(e.test, env) else eval_value(e.orelse, env)
    if isinstance(e, ast.Compare) and len(e.ops) > 1:
        # a < b <= c: the conjunction of the links (each operand folded once)
        vals = [eval_value(e.left, env)] + [eval_value(c_, env) for c_ in e.comparators]
        for i_, op_ in enumerate(e.ops):
            link = ast.Compare(left=ast.Constant(value=vals[i_]), ops=[op_], comparators=[ast.Constant(value=vals[i_ + 1])])
            if not eval_value(link, {}):
                return False
        return True
    if isinstance(e, ast.Compare) and len(e.ops) == 1:
        a, b = eval_value(e.left, env), eval_value(e.comparators[0], env)
        op = e.ops[0]
        table = {ast.Eq: lambda: a == b, ast.NotEq: lambda: a != b, ast.Lt: lambda: a < b, ast.LtE: lambda: a <= b,
                 ast.Gt: lambda: a > b, ast.GtE: lambda: a >= b, ast.In: lambda: a in b, ast.NotIn: lambda: a not in b,
                 ast.Is: lambda: a is b, ast.IsNot: lambda: a is not b}
        try:
            return table[type(op)]()
        except TypeError:
            raise CannotEvaluate('comparison')
    if isinstance(e, ast.Subscript):
        v = eval_value(e.value, env)
        if isinstance(v, dict) and not isinstance(e.slice, ast.Slice):
            return v[eval_value(e.slice, env)]      # KeyError propagates like any conversion error
        if not isinstance(v, (bytes, str, tuple, list)):
            raise CannotEvaluate('subscript of %s' % type(v).__name__)
        if isinstance(e.slice, ast.Slice):
            lo = eval_value(e.slice.lower, env) if e.slice.lower is not None else None
            hi = eval_value(e.slice.upper, env) if e.slice.upper is not None else None
            st = eval_value(e.slice.step, env) if e.slice.step is not None else None
            if any(x is not None and not isinstance(x, int) for x in (lo, hi, st)):
                raise CannotEvaluate('slice bound')
            return v[lo:hi:st]
        i = eval_value(e.slice, env)
        if not isinstance(i, int):
            raise CannotEvaluate('index')
        return v[i]
    if isinstance(e, ast.Call):
        fn = e.func
        args = [eval_value(a, env) for a in e.args]
        if e.keywords:
            kw = {k.arg: eval_value(k.value, env) for k in e.keywords if k.arg}
        else:
            kw = {}
        if isinstance(fn, ast.Attribute):
            txt = ast.unparse(fn)
            if txt in _IDENTITY_CALLS and len(args) == 1:
                return args[0]
            recv = eval_value(fn.value, env)
            if isinstance(recv, dict) and fn.attr in ('keys', 'values', 'items', 'get') and not kw:
                if fn.attr == 'get':
                    return recv.get(*args)
                if not args:
                    return list(getattr(recv, fn.attr)())
            ok = (isinstance(recv, bytes) and fn.attr in _BYTES_METHODS) or (isinstance(recv, str) and fn.attr in _STR_METHODS)
            if not ok:
                raise CannotEvaluate('method %s of %s' % (fn.attr, type(recv).__name__))
            return getattr(recv, fn.attr)(*args, **kw)
        if isinstance(fn, ast.Name):
            if fn.id in _IDENTITY_CALLS and len(args) == 1:
                return args[0]
            if fn.id in ('range', 'xrange') and not kw and 1 <= len(args) <= 3 and all(type(a) is int for a in args) \
                    and not (len(args) == 3 and args[2] == 0):
                return range(*args)
            if fn.id in ('min', 'max') and set(kw) == {'default'} and len(args) == 1:
                return {'min': min, 'max': max}[fn.id](args[0], default=kw['default'])
            if fn.id in ('len', 'int', 'str', 'bytes', 'min', 'max', 'abs', 'bool', 'ord', 'chr') and not kw:
                if fn.id == 'bytes' and args and isinstance(args[0], int):
                    raise CannotEvaluate('bytes(n)')
                return {'len': len, 'int': int, 'str': str, 'bytes': bytes, 'min': min, 'max': max, 'abs': abs, 'bool': bool,
                        'ord': ord, 'chr': chr}[fn.id](*args)
        raise CannotEvaluate('call %s' % ast.unparse(fn))
    raise CannotEvaluate(type(e).__name__)


def eval_iter(e: ast.AST, env: Dict[str, Any], limit: int = 4096):
    """Folding of a closed *sequence* term (the iterable a loop was found to run over) at constants: ``range``, displays,
    ``zip``, ``enumerate``, ``itertools.chain / repeat / islice / count``, ``iter``, ``list`` / ``tuple`` and generator
    expressions / list comprehensions over these, with scalar parts folded by eval_value.  Returns a Python iterator that
    yields at most ``limit`` items (an endless ``count()`` / ``repeat()`` is cut there); raises CannotEvaluate on anything
    else.  Like eval_value this folds a term the analysis extracted; it does not run code of the package."""
    import itertools as _it

    def go(x, env):
        if isinstance(x, ast.Name) and x.id in env and isinstance(env[x.id], (list, tuple)):
            return iter(env[x.id])
        if isinstance(x, (ast.Tuple, ast.List)):
            if any(isinstance(y, ast.Starred) for y in x.elts):
                raise CannotEvaluate('starred display')
            return iter([eval_value(y, env) for y in x.elts])
        if isinstance(x, (ast.GeneratorExp, ast.ListComp)):
            def gen(gens, env_):
                if not gens:
                    v = x.elt
                    yield eval_value(v, env_) if not isinstance(v, ast.Tuple) else tuple(eval_value(y, env_) for y in v.elts)
                    return
                g = gens[0]
                if g.is_async:
                    raise CannotEvaluate('async comprehension')
                for item in go(g.iter, env_):
                    env2 = dict(env_)
                    bind(g.target, item, env2)
                    if all(eval_value(c, env2) for c in g.ifs):
                        for out in gen(gens[1:], env2):
                            yield out
            return gen(list(x.generators), env)
        if isinstance(x, ast.Call) and not any(isinstance(a, ast.Starred) for a in x.args):
            name = ast.unparse(x.func)
            short = name.split('.')[-1]
            kw = {k.arg: k.value for k in x.keywords}
            if name in ('range', 'xrange', 'six.moves.range') and not kw and 1 <= len(x.args) <= 3:
                vals = [eval_value(a, env) for a in x.args]
                if not all(type(v) is int for v in vals) or (len(vals) == 3 and vals[2] == 0):
                    raise CannotEvaluate('range arguments')
                return iter(range(*vals))
            if name in ('zip', 'six.moves.zip', 'itertools.izip', 'izip') and not kw and x.args:
                return zip(*[go(a, env) for a in x.args])
            if name == 'enumerate' and 1 <= len(x.args) <= 2 and set(kw) <= {'start'}:
                st = eval_value(x.args[1] if len(x.args) == 2 else kw.get('start', ast.Constant(value=0)), env)
                if type(st) is not int:
                    raise CannotEvaluate('enumerate start')
                return enumerate(go(x.args[0], env), st)
            if short == 'chain' and name in ('chain', 'itertools.chain') and not kw:
                return _it.chain(*[go(a, env) for a in x.args])
            if short == 'repeat' and name in ('repeat', 'itertools.repeat') and 1 <= len(x.args) <= 2 and set(kw) <= {'times'}:
                v = eval_value(x.args[0], env)
                t = x.args[1] if len(x.args) == 2 else kw.get('times')
                if t is None:
                    return _it.repeat(v)
                n = eval_value(t, env)
                if type(n) is not int:
                    raise CannotEvaluate('repeat count')
                return _it.repeat(v, max(n, 0))
            if short == 'count' and name in ('count', 'itertools.count') and len(x.args) <= 2 and not kw:
                vals = [eval_value(a, env) for a in x.args]
                if not all(type(v) is int for v in vals):
                    raise CannotEvaluate('count arguments')
                return _it.count(*vals)
            if short == 'islice' and name in ('islice', 'itertools.islice') and 2 <= len(x.args) <= 4 and not kw:
                vals = [eval_value(a, env) for a in x.args[1:]]
                if not all(v is None or (type(v) is int and v >= 0) for v in vals):
                    raise CannotEvaluate('islice arguments')
                return _it.islice(go(x.args[0], env), *vals)
            if name in ('iter', 'list', 'tuple', 'reversed') and len(x.args) == 1 and not kw:
                if name == 'reversed':
                    return iter(list(go(x.args[0], env))[::-1][:limit])
                return go(x.args[0], env)
        v = eval_value(x, env)
        if isinstance(v, (list, tuple, bytes, str)):
            return iter(v)
        raise CannotEvaluate('not a sequence term: %s' % ast.unparse(x)[:60])

    def bind(target, item, env2):
        if isinstance(target, ast.Name):
            env2[target.id] = item
        elif isinstance(target, (ast.Tuple, ast.List)) and not any(isinstance(y, ast.Starred) for y in target.elts):
            item = tuple(item)
            if len(item) != len(target.elts):
                raise CannotEvaluate('unpacking')
            for t_, i_ in zip(target.elts, item):
                bind(t_, i_, env2)
        else:
            raise CannotEvaluate('loop target')
    import itertools
    return itertools.islice(go(e, env), limit)
