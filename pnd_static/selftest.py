"""Checker self-validation: must-fire and must-stay-silent variants of the current tree.

Each variant is one textual edit (exact substring, must occur exactly ``count`` times) of a
file of /repo/pynetdicom2, applied to a scratch copy outside /repo and /verif; the property's
check is run on the copy (VERIF_REPO) in a sub-process with its evidence redirected, and the
copy is removed.  Results measure the checker, they never decide a property's exit code.

    python -m pnd_static.selftest [--property Cnn] [--jobs 16] [--list]
"""
from __future__ import annotations

import argparse
import json
import os
import shutil
import subprocess
import sys
import tempfile
from concurrent.futures import ThreadPoolExecutor
from typing import List, Optional

from .srcmodel import PKG, repo_root

VERIF = os.path.dirname(os.path.dirname(os.path.abspath(__file__)))


class Variant:
    def __init__(self, prop, name, file, old, new, expect='fire', count=1, rule=None, more=()):
        self.prop, self.name, self.file, self.old, self.new = prop, name, file, old, new
        self.expect, self.count, self.rule = expect, count, rule
        self.more = list(more)   # further (file, old, new) edits applied together with the first

    def edits(self):
        return [(self.file, self.old, self.new, self.count)] + [(f, o, n, 1) for f, o, n in self.more]


class PatchVariant(Variant):
    """A stored unified diff (a seeded breaking change or a behaviour-preserving refactoring made by an
    independent agent) applied to the scratch copy with patch(1)."""

    def __init__(self, prop, name, patch, expect, rule=None):
        Variant.__init__(self, prop, name, None, None, None, expect=expect, rule=rule)
        self.patch = patch

    def edits(self):
        return []


MECH_TRANSFORMS = ('unparse', 'rename', 'swapeq', 'flipif', 'logging', 'yieldfrom', 'fstring', 'elsereturn', 'ifexp', 'augexpand',
                   'tmpvar', 'all', 'kwargs', 'cachelocal', 'structconst', 'boolwrap', 'all2', 'renamepriv', 'absimports', 'aliasimports', 'nosix', 'reorder', 'annotate', 'tryfinally')


class MechVariant(Variant):
    """A mechanical, behaviour-preserving transformation of every module (tools/mech_refactor.py), generated from the
    current tree on every run."""

    def __init__(self, prop, transform):
        Variant.__init__(self, prop, 'silent: mechanical %s' % transform, None, None, None, expect='silent')
        self.transform = transform

    def edits(self):
        return []


def mech_variants() -> List['Variant']:
    return [MechVariant('C%02d' % i, t) for t in MECH_TRANSFORMS for i in range(1, 21)]


def stored_patch_variants() -> List['Variant']:
    out: List[Variant] = []
    sd = os.path.join(VERIF, 'seeded')
    for sid in sorted(os.listdir(sd)) if os.path.isdir(sd) else []:
        try:
            meta = json.load(open(os.path.join(sd, sid, 'meta.json')))
        except (OSError, ValueError):
            continue
        for prop in sorted(meta.get('checks_that_fire', {})):
            out.append(PatchVariant(prop, 'seeded change %s' % sid, os.path.join(sd, sid, 'patch.diff'), 'fire'))
    rd = os.path.join(VERIF, 'refactors')
    for rid in sorted(os.listdir(rd)) if os.path.isdir(rd) else []:
        pf = os.path.join(rd, rid, 'patch.diff')
        if os.path.exists(pf):
            # checks for which "cannot decide" (exit 2) is the documented answer on this tree: never a violation, not a pass
            und = set()
            uf = os.path.join(rd, rid, 'undecided.txt')
            if os.path.exists(uf):
                und = {ln.split()[0] for ln in open(uf) if ln.strip() and not ln.startswith('#')}
            # checks whose report on this tree is upheld: the change keeps the property it was written around, but breaks this
            # other one (a finding about the change, not a false alarm): the check must fire
            uph = set()
            hf = os.path.join(rd, rid, 'upheld.txt')
            if os.path.exists(hf):
                uph = {ln.split()[0] for ln in open(hf) if ln.strip() and not ln.startswith('#')}
            for i in range(1, 21):
                pid = 'C%02d' % i
                if pid in uph:
                    out.append(PatchVariant(pid, 'upheld: refactoring %s' % rid, pf, 'fire'))
                elif pid in und:
                    out.append(PatchVariant(pid, 'undecided: refactoring %s' % rid, pf, 'undecided'))
                else:
                    out.append(PatchVariant(pid, 'silent: refactoring %s' % rid, pf, 'silent'))
    return out


def load_variants() -> List[Variant]:
    from . import selftest_variants
    return list(selftest_variants.VARIANTS) + stored_patch_variants() + mech_variants()


def run_variant(v: Variant, keep=False) -> dict:
    src = os.path.join(repo_root(), PKG)
    texts = {}
    for fn, old, new, cnt in v.edits():
        if fn not in texts:
            with open(os.path.join(src, fn)) as f:
                texts[fn] = f.read()
        n = texts[fn].count(old)
        if n != cnt:
            return {'variant': v.name, 'property': v.prop, 'status': 'skipped',
                    'why': 'anchor text occurs %d time(s), expected %d (tree was edited)' % (n, cnt)}
        texts[fn] = texts[fn].replace(old, new)
    tmp = tempfile.mkdtemp(prefix='pndst_')
    try:
        if getattr(v, 'transform', None):
            pr = subprocess.run([sys.executable, os.path.join(VERIF, 'tools', 'mech_refactor.py'), v.transform, tmp],
                                env=dict(os.environ, MECH_SRC=repo_root()), capture_output=True, text=True)
            if pr.returncode != 0:
                return {'variant': v.name, 'property': v.prop, 'status': 'skipped', 'why': 'transformation failed: %s' % pr.stderr[-200:]}
        else:
            shutil.copytree(src, os.path.join(tmp, PKG))
        if getattr(v, 'patch', None):
            pr = subprocess.run(['patch', '-p1', '-s', '--no-backup-if-mismatch', '-i', v.patch], cwd=tmp, capture_output=True, text=True)
            if pr.returncode != 0:
                return {'variant': v.name, 'property': v.prop, 'status': 'skipped',
                        'why': 'stored patch no longer applies (tree was edited)'}
        for fn, text in texts.items():
            with open(os.path.join(tmp, PKG, fn), 'w') as f:
                f.write(text)
            # the variant must still compile
            try:
                compile(text, fn, 'exec')
            except SyntaxError as exc:
                return {'variant': v.name, 'property': v.prop, 'status': 'invalid', 'why': 'does not compile: %s' % exc}
        env = dict(os.environ, VERIF_REPO=tmp, VERIF_EVIDENCE_DIR=os.path.join(tmp, 'evidence'))
        p = subprocess.run([sys.executable, '-m', 'pnd_static.check', '--property', v.prop],
                           cwd=VERIF, env=env, capture_output=True, text=True, timeout=300)
        fired = p.returncode == 1
        rules = sorted({ln.split('rule ')[1].split()[0] for ln in p.stdout.splitlines() if '  rule ' in ln})
        ok = (fired and v.expect == 'fire') or (p.returncode == 0 and v.expect == 'silent') or (p.returncode == 2 and v.expect == 'undecided')
        if ok and v.expect == 'fire' and v.rule and v.rule not in rules:
            ok = False
        return {'variant': v.name, 'property': v.prop, 'expect': v.expect, 'rc': p.returncode, 'rules': rules,
                'status': 'ok' if ok else 'WRONG', 'out': p.stdout[-600:] if not ok else ''}
    finally:
        if not keep:
            shutil.rmtree(tmp, ignore_errors=True)


def run_all(prop: Optional[str] = None, jobs: int = 16) -> dict:
    vs = [v for v in load_variants() if prop is None or v.prop == prop]
    with ThreadPoolExecutor(max_workers=jobs) as ex:
        res = list(ex.map(run_variant, vs))
    fire = [r for r in res if r.get('expect') == 'fire']
    silent = [r for r in res if r.get('expect') == 'silent']
    und = [r for r in res if r.get('expect') == 'undecided']
    return {
        'must_be_undecided': len(und), 'undecided': sum(1 for r in und if r['status'] == 'ok'),
        'variants': len(vs),
        'must_fire': len(fire), 'fired': sum(1 for r in fire if r['status'] == 'ok'),
        'must_stay_silent': len(silent), 'silent': sum(1 for r in silent if r['status'] == 'ok'),
        'skipped': sum(1 for r in res if r['status'] in ('skipped', 'invalid')),
        'wrong': [r for r in res if r['status'] == 'WRONG'],
        'results': res,
    }


def main(argv=None):
    ap = argparse.ArgumentParser()
    ap.add_argument('--property')
    ap.add_argument('--jobs', type=int, default=16)
    ap.add_argument('--list', action='store_true')
    a = ap.parse_args(argv)
    if a.list:
        for v in load_variants():
            print(v.prop, v.expect, v.name)
        return 0
    out = run_all(a.property, a.jobs)
    for r in out['results']:
        print('%-6s %-7s %-60s %s' % (r['property'], r['status'], r['variant'], ','.join(r.get('rules', [])) or r.get('why', '')))
    for r in out['wrong']:
        print('---- WRONG', r['variant'], 'rc', r['rc'])
        print(r['out'])
    print('must-fire %d/%d  must-stay-silent %d/%d  must-say-undecided %d/%d  skipped %d'
          % (out['fired'], out['must_fire'], out['silent'], out['must_stay_silent'], out['undecided'], out['must_be_undecided'], out['skipped']))
    return 0 if not out['wrong'] else 1


if __name__ == '__main__':
    sys.exit(main())
