"""Byte-layout terms of the PDU / item / sub-item codecs (pdu.py, userdataitems.py).

For every class that has both ``encode`` and ``decode`` the encoder's return
expression is turned into a flat sequence of elements

    ('f', char, width, big_endian, binding)      one struct field
    ('v', kind, attr)                            variable part: 'enc' | 'bytes' | 'items'

and the decoder's statement sequence into

    ('f', char, width, big_endian, name)         one unpacked field
    ('v', 'read', length-affine, name)           stream.read(<expr>)
    ('v', 'child', Class, name)                  Class.decode(stream)
    ('v', 'loop', LoopDesc, name)                list(<generator>())

with symbolic (affine) extents.  Nothing is executed.  Shapes outside the enumerated
idioms raise AnalysisError (exit 2), they are never silently accepted.
"""
from __future__ import annotations

import ast
import re
import struct as _struct
from dataclasses import dataclass, field
from typing import Any, Dict, List, Optional, Tuple

from .flow import attr_chain
from .srcmodel import (AnalysisError, ClassInfo, ClassRef, FuncInfo, NotConst, Repo, StructVal,
                       body_without_docstring, norm)


# --------------------------------------------------------------------------- affine

class Affine:
    """sum(coef * symbol) + const; symbols are hashable tuples."""
    __slots__ = ('terms', 'const')

    def __init__(self, terms: Optional[Dict[Any, int]] = None, const: int = 0):
        self.terms = {k: v for k, v in (terms or {}).items() if v != 0}
        self.const = const

    @staticmethod
    def sym(s) -> 'Affine':
        return Affine({s: 1}, 0)

    @staticmethod
    def c(n: int) -> 'Affine':
        return Affine({}, n)

    def __add__(self, o: 'Affine') -> 'Affine':
        t = dict(self.terms)
        for k, v in o.terms.items():
            t[k] = t.get(k, 0) + v
        return Affine(t, self.const + o.const)

    def __sub__(self, o: 'Affine') -> 'Affine':
        return self + o.scale(-1)

    def scale(self, n: int) -> 'Affine':
        return Affine({k: v * n for k, v in self.terms.items()}, self.const * n)

    def __eq__(self, o) -> bool:
        return isinstance(o, Affine) and self.terms == o.terms and self.const == o.const

    def __hash__(self):
        return hash((frozenset(self.terms.items()), self.const))

    def is_const(self) -> bool:
        return not self.terms

    def subst(self, mapping: Dict[Any, 'Affine']) -> 'Affine':
        out = Affine({}, self.const)
        for k, v in self.terms.items():
            if k in mapping:
                out = out + mapping[k].scale(v)
            else:
                out = out + Affine({k: v}, 0)
        return out

    def __repr__(self):
        parts = []
        for k, v in sorted(self.terms.items(), key=lambda kv: str(kv[0])):
            name = '%s(%s)' % (k[0], k[1]) if isinstance(k, tuple) and len(k) == 2 else str(k)
            parts.append(('%d*' % v if v != 1 else '') + name)
        if self.const or not parts:
            parts.append(str(self.const))
        return ' + '.join(parts)


def parse_fmt(fmt: str) -> Tuple[str, List[Tuple[str, int]]]:
    """-> (byte order char, [(format char, width), ...]) with counts expanded."""
    f = fmt.replace(' ', '')
    order = '@'
    if f and f[0] in '<>!=@':
        order, f = f[0], f[1:]
    out = []
    for n, ch in re.findall(r'(\d*)([a-zA-Z?])', f):
        if ch in 'sp':
            out.append((ch, int(n) if n else 1))
        else:
            w = _struct.calcsize('=' + ch)
            for _ in range(int(n) if n else 1):
                out.append((ch, w))
    return order, out


# --------------------------------------------------------------------------- model

@dataclass
class LoopDesc:
    kind: str                           # 'dispatch' | 'until' | 'table' | 'counted'
    accepts: Dict[Any, str] = field(default_factory=dict)   # literal -> class name
    default: Optional[str] = None       # class used for any other type (open dispatch)
    else_raises: bool = False
    bound: Optional[Affine] = None      # bytes the loop may consume (sub-stream / counter)
    counter_ok: bool = True
    node: Optional[ast.AST] = None
    advances: bool = True
    table_name: Optional[str] = None


@dataclass
class CodecLayout:
    cls: ClassInfo
    enc: List[tuple]
    dec: List[tuple]
    enc_f: FuncInfo
    dec_f: FuncInfo
    ctor_map: Dict[str, str]            # ctor parameter -> attribute
    ret_map: Dict[str, str]             # ctor parameter -> decoder local name
    total: Optional[Affine]
    length_prop: Dict[str, Affine]
    type_attr: Optional[str]
    type_const: Any
    notes: List[str] = field(default_factory=list)


class LayoutExtractor:
    special_paths: Dict[str, list]

    def __init__(self, repo: Repo):
        self.special_paths = {}
        self.repo = repo
        self.mods = [repo.module('pdu'), repo.module('userdataitems')]
        self.classes: Dict[str, ClassInfo] = {}
        for m in self.mods:
            for c in m.classes.values():
                if c.find_method('encode') and c.find_method('decode'):
                    if repo.is_helper_class(c) and any(x.key != c.key for x in repo.subclasses(c)):
                        continue     # a new common base (mix-in): its methods are read in the classes that inherit them
                    self.classes[c.name] = c
        self.layouts: Dict[str, CodecLayout] = {}
        self.assumptions: List[str] = []
        self.size_problems: Dict[str, List[str]] = {}
        self.enc_conv: Dict[str, Dict[str, str]] = {}    # class -> attribute -> encoder-side conversion expression
        self.dec_conv: Dict[str, Dict[str, Tuple[str, str]]] = {}   # class -> ctor parameter -> (term, raw element term)

    def concrete_classes(self) -> List[ClassInfo]:
        """Codec classes that are instantiated (have a type constant or are PDV/Generic)."""
        out = []
        for c in self.classes.values():
            if c.name.endswith('Base'):
                continue
            out.append(c)
        return out

    # ------------------------------------------------------------- helpers
    def struct_of(self, e: ast.expr, c: ClassInfo) -> Optional[StructVal]:
        ch = attr_chain(e)
        if ch and len(ch) == 2 and ch[0] in ('self', 'cls'):
            hit = c.find_attr(ch[1])
            if hit:
                v = self.repo.try_fold(hit[1], hit[0].module, hit[0])
                if isinstance(v, StructVal):
                    return v
        v = self.repo.try_fold(e, c.module, c)
        return v if isinstance(v, StructVal) else None

    def ctor_map(self, c: ClassInfo) -> Dict[str, str]:
        init = c.find_method('__init__')
        out: Dict[str, str] = {}
        if init is None:
            return out
        params = set(init.params[1:])
        for st in ast.walk(init.node):
            if isinstance(st, ast.Assign) and len(st.targets) == 1:
                ch = attr_chain(st.targets[0])
                if ch and len(ch) == 2 and ch[0] == 'self':
                    used = [n.id for n in ast.walk(st.value) if isinstance(n, ast.Name) and n.id in params]
                    for p in used:
                        out.setdefault(p, ch[1])
        return out

    def ctor_default(self, c: ClassInfo, attr: str) -> Optional[int]:
        init = c.find_method('__init__')
        if init is None:
            return None
        cmap = self.ctor_map(c)
        for p, a in cmap.items():
            if a == attr:
                args = init.node.args
                names = [x.arg for x in args.args]
                defaults = args.defaults
                idx = names.index(p) - (len(names) - len(defaults))
                if idx >= 0:
                    v = self.repo.try_fold(defaults[idx], c.module, c)
                    if isinstance(v, int):
                        return v
        return None

    # ------------------------------------------------------------- affine of encoder-side expressions
    def aff_enc(self, e: ast.expr, c: ClassInfo, locs: Dict[str, Any], depth=0) -> Affine:
        if depth > 8:
            raise AnalysisError('length expression too deep in %s' % c.name)
        if isinstance(e, ast.Constant) and isinstance(e.value, int):
            return Affine.c(e.value)
        if isinstance(e, ast.Attribute) and e.attr == 'size':
            # S.size of a struct.Struct constant (``self.header.size``, a module-level Struct)
            sv = self.struct_of(e.value, c)
            if sv is None:
                v0 = self.repo.try_fold(e.value, c.module, c)
                sv = v0 if isinstance(v0, StructVal) else None
            if sv is not None:
                return Affine.c(sv.size)
        if isinstance(e, ast.BinOp) and isinstance(e.op, (ast.Add, ast.Sub)):
            a = self.aff_enc(e.left, c, locs, depth + 1)
            b = self.aff_enc(e.right, c, locs, depth + 1)
            return a + b if isinstance(e.op, ast.Add) else a - b
        if isinstance(e, ast.BinOp) and isinstance(e.op, ast.Mult):
            a = self.aff_enc(e.left, c, locs, depth + 1)
            b = self.aff_enc(e.right, c, locs, depth + 1)
            if a.is_const():
                return b.scale(a.const)
            if b.is_const():
                return a.scale(b.const)
        if isinstance(e, ast.Call) and isinstance(e.func, ast.Name) and e.func.id == 'len' and len(e.args) == 1:
            a = e.args[0]
            ch = attr_chain(a)
            if ch and len(ch) == 2 and ch[0] == 'self':
                return Affine.sym(('len', ch[1]))
            if isinstance(a, ast.Name) and a.id in locs and locs[a.id][0] == 'text':
                return Affine.sym(('len', locs[a.id][1]))
        if isinstance(e, ast.Call) and isinstance(e.func, ast.Name) and e.func.id == 'sum' and len(e.args) == 1:
            g = e.args[0]
            if isinstance(g, (ast.GeneratorExp, ast.ListComp)) and len(g.generators) == 1:
                gen = g.generators[0]
                src = attr_chain(gen.iter)
                if src and len(src) == 2 and src[0] == 'self' and isinstance(gen.target, ast.Name) and not gen.ifs:
                    elt = g.elt
                    tl = elt.func if isinstance(elt, ast.Call) and not elt.args else elt
                    if attr_chain(tl) == (gen.target.id, 'total_length'):
                        return Affine.sym(('sum', src[1]))
        # accumulation loop folded by the provenance client: AUG_x(0, 'Add', ITEM(self.items).total_length())
        if isinstance(e, ast.Call) and isinstance(e.func, ast.Name) and e.func.id.startswith('AUG_') and len(e.args) == 3 \
                and isinstance(e.args[1], ast.Constant) and e.args[1].value == 'Add':
            init = self.aff_enc(e.args[0], c, locs, depth + 1)
            elt = e.args[2]
            tl = elt.func if isinstance(elt, ast.Call) and not elt.args else elt
            if isinstance(tl, ast.Attribute) and tl.attr == 'total_length' and isinstance(tl.value, ast.Call) \
                    and isinstance(tl.value.func, ast.Name) and tl.value.func.id == 'ITEM' and len(tl.value.args) == 1:
                src = attr_chain(tl.value.args[0])
                if src and len(src) == 2 and src[0] == 'self':
                    return init + Affine.sym(('sum', src[1]))
        if isinstance(e, ast.Call) and not e.args and isinstance(e.func, ast.Attribute) and e.func.attr == 'total_length':
            ch = attr_chain(e.func.value)
            if ch and len(ch) == 2 and ch[0] == 'self':
                return Affine.sym(('total', ch[1]))
        ch = attr_chain(e)
        if ch and len(ch) == 3 and ch[0] == 'self' and ch[2] == 'total_length':
            return Affine.sym(('total', ch[1]))
        if ch and len(ch) == 2 and ch[0] == 'self':
            name = ch[1]
            m = c.find_method(name)
            if m is not None and m.kind == 'property':
                ret = self.return_expr(m)
                return self.aff_enc(ret, c, {}, depth + 1)    # ``self`` is an instance of c, whichever class defines the property
            hit = c.find_attr(name)
            if hit is not None:
                v = self.repo.try_fold(hit[1], hit[0].module, hit[0])
                if isinstance(v, int):
                    return Affine.c(v)
            d = self.ctor_default(c, name)
            if d is not None and name.endswith('_length'):
                note = ('A2: %s.%s is a stored attribute, taken at its constructor default %d'
                        % (c.name, name, d))
                if note not in self.assumptions:
                    self.assumptions.append(note)
                return Affine.c(d)
            return Affine.sym(('field', name))
        if isinstance(e, ast.Name) and e.id in locs:
            v = locs[e.id]
            if v[0] == 'expr':
                return self.aff_enc(v[1], c, locs, depth + 1)
        if isinstance(e, ast.Call) and isinstance(e.func, ast.Name) and e.func.id == 'int' and len(e.args) == 1:
            return self.aff_enc(e.args[0], c, locs, depth + 1)
        raise AnalysisError('%s: length expression %s not affine' % (c.name, norm(e)))

    def return_expr(self, m: FuncInfo) -> ast.expr:
        """The value a length property / method returns, as one expression over ``self`` attributes: the function is
        followed path-sensitively (locals substituted, helpers inlined, accumulation loops folded into AUG terms); all
        returning paths must agree on the term."""
        try:
            return _single_return(m)
        except AnalysisError:
            pass
        from .sym import SymClient, empty_state
        cl = SymClient(self.repo, m, event_of=lambda *a: None, inline=lambda fi: fi.module.name in ('pdu', 'userdataitems')
                       and fi.name not in ('encode', 'decode'))
        o = cl.run(empty_state())
        terms = sorted({s_.ret for s_, _r in o.ret if s_.ret is not None})
        if len(terms) > 1:
            # the path on which an accumulation loop runs zero times returns the loop's initial value: it is the
            # general term with every AUG_x(init, op, elt) replaced by init
            import re as _re

            def zero_iter(t):
                e0 = ast.parse(t, mode='eval').body

                class _Z(ast.NodeTransformer):
                    def visit_Call(self, n):
                        n = self.generic_visit(n)
                        if isinstance(n.func, ast.Name) and n.func.id.startswith('AUG_') and len(n.args) == 3:
                            return n.args[0]
                        return n
                return ast.unparse(_Z().visit(e0))
            general = [t for t in terms if 'AUG_' in t]
            if len(general) == 1 and all(t == general[0] or t == zero_iter(general[0]) for t in terms):
                terms = general
            else:
                # the same for a list filled in a loop: ``[a, *MAP(x)]`` is the general list, the path with zero iterations
                # shows it without its starred parts
                def no_stars(t):
                    e0 = ast.parse(t, mode='eval').body

                    class _S(ast.NodeTransformer):
                        def visit_List(self, n):
                            n = self.generic_visit(n)
                            n.elts = [x for x in n.elts if not (isinstance(x, ast.Starred) and isinstance(x.value, ast.Call)
                                                                  and isinstance(x.value.func, ast.Name) and x.value.func.id == 'MAP')]
                            return n
                    return ast.unparse(_S().visit(e0))
                general = [t for t in terms if '*MAP(' in t]
                if len(general) == 1 and all(t == general[0] or t == no_stars(general[0]) for t in terms):
                    terms = general
        if len(terms) != 1 or o.fall:
            raise AnalysisError('%s: %s does not return one expression on all paths (%s)' % (m.loc(), m.qualname, terms[:3]))
        try:
            return ast.parse(terms[0], mode='eval').body
        except SyntaxError:
            raise AnalysisError('%s: %s returns %s' % (m.loc(), m.qualname, terms[0]))

    def return_paths(self, m: FuncInfo):
        """[(return term, path conditions)] of a method, helpers inlined -- used when the paths do not agree on one term"""
        from .sym import SymClient, empty_state
        cl = SymClient(self.repo, m, event_of=lambda *a: None, inline=lambda fi: fi.module.name in ('pdu', 'userdataitems')
                       and fi.name not in ('encode', 'decode'))
        o = cl.run(empty_state())
        if o.fall:
            raise AnalysisError('%s: %s can fall off its end' % (m.loc(), m.qualname))
        out = {}
        for s_, _r in o.ret:
            if s_.ret is not None:
                out.setdefault(s_.ret, []).append(tuple(s_.conds))
        return sorted(out.items())

    def total_length(self, c: ClassInfo) -> Optional[Affine]:
        m = c.find_method('total_length')
        if m is None:
            return None
        ret = self.return_expr(m)
        return self.aff_enc(ret, c, {})

    # ------------------------------------------------------------- encoder
    def encoder(self, c: ClassInfo) -> Tuple[List[tuple], FuncInfo, Dict[str, Any]]:
        """The encoder's return value as one expression over ``self`` attributes (locals substituted, helpers inlined by
        the provenance client), split into its parts."""
        f = c.find_method('encode')
        try:
            ret = self.return_expr(f)
        except AnalysisError as first:
            # special-case paths ("one item: pack both headers at once"): a path taken only when a list attribute has a
            # stated length is a specialisation; the remaining paths must agree on one term, the general encoder.  The
            # specialisations are checked for byte-equivalence with it (special_path_problems).
            from .sym import cond_eq
            paths = self.return_paths(f)
            special, general = [], []
            for term, condsets in paths:
                spec = None
                for conds in condsets:
                    hit = None
                    import re as _re
                    for name in sorted({m_ for cd in conds for m_ in _re.findall(r'len\(self\.(\w+)\)', cd)}):
                        for k in (0, 1, 2, 3):
                            if cond_eq(conds, 'len(self.%s)' % name, str(k)):
                                hit = (name, k)
                    if hit is None:
                        spec = None
                        break
                    if spec is not None and spec != hit:
                        spec = None
                        break
                    spec = hit
                (special if spec is not None else general).append((term, spec))
            if len(general) != 1 or not special:
                raise first
            ret = ast.parse(general[0][0], mode='eval').body
            self.special_paths.setdefault(c.name, [])
            for term, spec in special:
                self.special_paths[c.name].append((spec[0], spec[1], ast.parse(term, mode='eval').body))
        self._cur_class = c.name
        return self._parts(ret, c, {}, f), f, {}

    # ------------------------------------------------------------- special-case encoder paths
    def _reroot(self, aff: Affine, prefix: str) -> Affine:
        return Affine({(k[0], prefix + k[1]) if isinstance(k, tuple) and len(k) == 2 and isinstance(k[1], str) else k: v
                       for k, v in aff.terms.items()}, aff.const)

    def _flat_general(self, c: ClassInfo, prefix: str, lens: Dict[str, int], depth=0) -> List[tuple]:
        """the general encoder of ``c`` as a flat list of byte atoms over the object at ``prefix`` (``self.``), list attributes
        in ``lens`` expanded to that many items: ('f', char, width, big, value) | ('raw', path) | ('enc', path) | ('items', path)"""
        if depth > 4:
            raise AnalysisError('item nesting too deep at %s' % prefix)
        lay = self.layout(c)
        out: List[tuple] = []
        for e in lay.enc:
            if e[0] == 'f':
                out.append(('f', e[1], e[2], e[3], self._value_nf_binding(e[4], c, prefix, lens, depth)))
            elif e[0] == 'v' and e[1] == 'items':
                name = e[2]
                if prefix == 'self.' and name in lens:
                    k = self._item_class(lay, name)
                    for i in range(lens[name]):
                        out.extend(self._flat_general(k, '%s%s[%d].' % (prefix, name, i), {}, depth + 1))
                else:
                    out.append(('items', prefix + name))
            elif e[0] == 'v' and e[1] == 'bytes':
                out.append(('raw', prefix + e[2]))
            else:
                out.append((e[1], prefix + str(e[2])))
        return out

    def _item_class(self, lay: CodecLayout, name: str) -> ClassInfo:
        for d in lay.dec:
            if d[0] == 'v' and d[1] == 'loop' and d[-1] == name and isinstance(d[2], LoopDesc):
                names = set(d[2].accepts.values()) | ({d[2].default} if d[2].default else set())
                if len(names) == 1:
                    return self.classes[next(iter(names))]
        raise AnalysisError('%s: item class of %s unknown' % (lay.cls.name, name))

    def _expand_sums(self, aff: Affine, c: ClassInfo, prefix: str, lens: Dict[str, int], depth) -> Affine:
        out = Affine({}, aff.const)
        for k, v in aff.terms.items():
            if isinstance(k, tuple) and k[0] == 'sum' and prefix == 'self.' and k[1] in lens:
                kc = self._item_class(self.layout(c), k[1])
                tl = self.layout(kc).total
                if tl is None:
                    raise AnalysisError('%s has no total_length' % kc.name)
                for i in range(lens[k[1]]):
                    out = out + self._expand_sums(tl, kc, '%s%s[%d].' % (prefix, k[1], i), {}, depth + 1).scale(v)
            elif isinstance(k, tuple) and len(k) == 2 and isinstance(k[1], str):
                out = out + Affine({(k[0], prefix + k[1]): v}, 0)
            else:
                out = out + Affine({k: v}, 0)
        return out

    def _value_nf_binding(self, b: tuple, c: ClassInfo, prefix: str, lens, depth) -> tuple:
        if b[0] == 'type':
            return ('const', b[2])
        if b[0] == 'const':
            return ('const', b[1])
        if b[0] == 'length':
            return ('aff', self._expand_sums(b[2], c, prefix, lens, depth))
        if b[0] == 'len':
            return ('aff', Affine.sym(('len', prefix + b[1])))
        if b[0] == 'attr':
            return ('attr', prefix + b[1])
        return ('expr', prefix + str(b[1]))

    def _obj_of(self, e: ast.expr, c: ClassInfo):
        """(prefix, class) for an object path ``self`` / ``self.X[i]`` inside an encoder of ``c``"""
        if isinstance(e, ast.Name) and e.id == 'self':
            return 'self.', c
        if isinstance(e, ast.Subscript) and isinstance(e.slice, ast.Constant) and isinstance(e.slice.value, int):
            ch = attr_chain(e.value)
            if ch and len(ch) == 2 and ch[0] == 'self':
                return 'self.%s[%d].' % (ch[1], e.slice.value), self._item_class(self.layout(c), ch[1])
        return None

    def _value_nf_expr(self, a: ast.expr, c: ClassInfo, lens) -> tuple:
        if isinstance(a, ast.Constant):
            return ('const', a.value)
        if isinstance(a, ast.Call) and isinstance(a.func, ast.Name) and a.func.id == 'len' and len(a.args) == 1 \
                and isinstance(a.args[0], ast.Attribute):
            o = self._obj_of(a.args[0].value, c)
            if o is not None:
                return ('aff', Affine.sym(('len', o[0] + a.args[0].attr)))
        tl = a.func if isinstance(a, ast.Call) and not a.args and not a.keywords else a
        if isinstance(tl, ast.Attribute):
            o = self._obj_of(tl.value, c)
            if o is not None:
                prefix, k = o
                name = tl.attr
                lay = self.layout(k)
                if name == 'total_length' and lay.total is not None:
                    return ('aff', self._expand_sums(lay.total, k, prefix, lens if prefix == 'self.' else {}, 0))
                if tl is a:
                    b = self._binding(ast.Attribute(value=ast.Name(id='self', ctx=ast.Load()), attr=name, ctx=ast.Load()), k, {})
                    return self._value_nf_binding(b, k, prefix, lens if prefix == 'self.' else {}, 0)
        if isinstance(a, ast.BinOp) and isinstance(a.op, (ast.Add, ast.Sub)):
            l, r = self._value_nf_expr(a.left, c, lens), self._value_nf_expr(a.right, c, lens)

            def as_aff(x):
                if x[0] == 'aff':
                    return x[1]
                if x[0] == 'const' and isinstance(x[1], int):
                    return Affine.c(x[1])
                return None
            la, ra = as_aff(l), as_aff(r)
            if la is not None and ra is not None:
                return ('aff', la + ra if isinstance(a.op, ast.Add) else la - ra)
        return ('expr', norm(a))

    def _flat_special(self, e: ast.expr, c: ClassInfo, lens, f: FuncInfo) -> List[tuple]:
        if isinstance(e, ast.BinOp) and isinstance(e.op, ast.Add):
            return self._flat_special(e.left, c, lens, f) + self._flat_special(e.right, c, lens, f)
        if isinstance(e, ast.Call):
            fn = e.func
            if isinstance(fn, ast.Attribute) and fn.attr == 'join' and isinstance(fn.value, ast.Constant) \
                    and fn.value.value == b'' and len(e.args) == 1 and isinstance(e.args[0], (ast.List, ast.Tuple)):
                out = []
                for x in e.args[0].elts:
                    out.extend(self._flat_special(x, c, lens, f))
                return out
            if isinstance(fn, ast.Attribute) and fn.attr == 'pack':
                sv = self.struct_of(fn.value, c)
                args = list(e.args)
                fmt = sv.fmt if sv is not None else None
                if fmt is None:
                    v0 = self.repo.try_fold(fn.value, c.module, c)
                    if isinstance(v0, StructVal):
                        fmt = v0.fmt
                if fmt is None and norm(fn) == 'struct.pack' and args and isinstance(args[0], ast.Constant):
                    fmt, args = args[0].value, args[1:]
                if fmt is None:
                    raise AnalysisError('%s: pack on unknown struct %s' % (f.loc(), norm(fn.value)))
                order, fields = parse_fmt(fmt)
                if len(fields) != len(args) or any(isinstance(x, ast.Starred) for x in args):
                    raise AnalysisError('%s: %d pack arguments for %d fields of %r' % (f.loc(), len(args), len(fields), fmt))
                return [('f', ch, w, order in '>!', self._value_nf_expr(a, c, lens)) for (ch, w), a in zip(fields, args)]
            if isinstance(fn, ast.Attribute) and fn.attr == 'encode' and not e.args:
                o = self._obj_of(fn.value, c)
                if o is not None and o[0] != 'self.':
                    return self._flat_general(o[1], o[0], {}, 1)
                ch = attr_chain(fn.value)
                if ch and len(ch) == 2 and ch[0] == 'self':
                    return [('enc', 'self.' + ch[1])]
        if isinstance(e, ast.Attribute):
            o = self._obj_of(e.value, c)
            if o is not None:
                return [('raw', o[0] + e.attr)]
        raise AnalysisError('%s: special-case encoder part %s not recognised' % (f.loc(), norm(e)[:80]))

    def special_path_problems(self, c: ClassInfo) -> Tuple[int, List[str]]:
        """(number of special-case encoder paths, differences from the general encoder specialised to the same case)"""
        lay = self.layout(c)
        probs: List[str] = []
        paths = self.special_paths.get(c.name, [])
        for attr, k, term in paths:
            lens = {attr: k}
            want = self._flat_general(c, 'self.', lens)
            got = self._flat_special(term, c, lens, lay.enc_f)

            def show(a):
                if a[0] == 'f':
                    return "'%s' %s" % (a[1], a[4][1] if a[4][0] != 'aff' else repr(a[4][1]))
                return '%s %s' % (a[0], a[1])
            for i in range(max(len(want), len(got))):
                w = want[i] if i < len(want) else None
                g = got[i] if i < len(got) else None
                if w != g:
                    probs.append('with len(%s) == %d the special-case path emits %s where the general encoder emits %s (byte part %d)'
                                 % (attr, k, show(g) if g else 'nothing', show(w) if w else 'nothing', i + 1))
                    break
        return len(paths), probs

    def _parts(self, e: ast.expr, c: ClassInfo, locs, f: FuncInfo) -> List[tuple]:
        if isinstance(e, ast.BinOp) and isinstance(e.op, ast.Add):
            return self._parts(e.left, c, locs, f) + self._parts(e.right, c, locs, f)
        if isinstance(e, ast.Call):
            fn = e.func
            # b''.join(...)
            if isinstance(fn, ast.Attribute) and fn.attr == 'join' and isinstance(fn.value, ast.Constant) \
                    and fn.value.value == b'' and len(e.args) == 1:
                a = e.args[0]

                def seq_parts(a):
                    if isinstance(a, (ast.List, ast.Tuple)) and any(isinstance(x, ast.Starred) for x in a.elts):
                        # [a, *MAP(ITEM(self.items).encode()), b]: a list filled by a loop over self.items
                        out = []
                        for x in a.elts:
                            if isinstance(x, ast.Starred):
                                v = x.value
                                ok = isinstance(v, ast.Call) and isinstance(v.func, ast.Name) and v.func.id == 'MAP' and len(v.args) == 1
                                el = v.args[0] if ok else None
                                if ok and isinstance(el, ast.Call) and not el.args and isinstance(el.func, ast.Attribute) \
                                        and el.func.attr == 'encode' and isinstance(el.func.value, ast.Call) \
                                        and isinstance(el.func.value.func, ast.Name) and el.func.value.func.id == 'ITEM' \
                                        and len(el.func.value.args) == 1:
                                    src = attr_chain(el.func.value.args[0])
                                    if src and len(src) == 2 and src[0] == 'self':
                                        out.append(('v', 'items', src[1]))
                                        continue
                                return None
                            out.extend(self._parts(x, c, locs, f))
                        return out
                    if isinstance(a, (ast.List, ast.Tuple)) and not any(isinstance(x, ast.Starred) for x in a.elts):
                        out = []
                        for x in a.elts:
                            out.extend(self._parts(x, c, locs, f))
                        return out
                    if isinstance(a, ast.BinOp) and isinstance(a.op, ast.Add):
                        l, r = seq_parts(a.left), seq_parts(a.right)
                        return None if l is None or r is None else l + r
                    if isinstance(a, ast.Call) and isinstance(a.func, ast.Name) and a.func.id in ('list', 'tuple') and len(a.args) == 1:
                        return seq_parts(a.args[0])
                    if isinstance(a, (ast.ListComp, ast.GeneratorExp)) and len(a.generators) == 1:
                        g = a.generators[0]
                        src = attr_chain(g.iter)
                        elt = a.elt
                        if src and len(src) == 2 and src[0] == 'self' and isinstance(g.target, ast.Name) and not g.ifs \
                                and isinstance(elt, ast.Call) and not elt.args \
                                and attr_chain(elt.func) == (g.target.id, 'encode'):
                            return [('v', 'items', src[1])]
                    return None
                got = seq_parts(a)
                if got is not None:
                    return got
                raise AnalysisError('%s: join argument %s not recognised' % (f.loc(e), norm(a)[:60]))
            # S.pack(...)
            if isinstance(fn, ast.Attribute) and fn.attr == 'pack':
                sv = self.struct_of(fn.value, c)
                fmt = None
                args = list(e.args)
                if sv is not None:
                    fmt = sv.fmt
                else:
                    r = None
                    try:
                        r = self.repo.resolve_expr(fn, c.module, c)
                    except NotConst:
                        pass
                    if getattr(r, 'path', None) == 'struct.pack' and args and isinstance(args[0], ast.Constant):
                        fmt = args[0].value
                        args = args[1:]
                if fmt is None:
                    raise AnalysisError('%s: pack on unknown struct %s' % (f.loc(e), norm(fn.value)))
                return self._pack_fields(fmt, args, c, locs, f, e)
            # X.encode()
            if isinstance(fn, ast.Attribute) and fn.attr == 'encode' and not e.args:
                ch = attr_chain(fn.value)
                if ch and len(ch) == 2 and ch[0] == 'self':
                    return [('v', 'enc', ch[1])]
            if isinstance(fn, ast.Attribute) and fn.attr == 'encode' and e.args and isinstance(e.args[0], ast.Constant) \
                    and isinstance(e.args[0].value, str):
                ch = attr_chain(fn.value)
                if ch and len(ch) == 2 and ch[0] == 'self':
                    self.enc_conv.setdefault(getattr(self, '_cur_class', c.name), {})[ch[1]] = norm(e)
                    return [('v', 'enc', ch[1])]
            raise AnalysisError('%s: encode() part %s not recognised' % (f.loc(e), norm(e)[:60]))
        if isinstance(e, ast.Name) and e.id in locs:
            v = locs[e.id]
            if v[0] == 'text':
                return [('v', 'enc', v[1])]
            return self._parts(v[1], c, locs, f)
        ch = attr_chain(e)
        if ch and len(ch) == 2 and ch[0] == 'self':
            return [('v', 'bytes', ch[1])]
        raise AnalysisError('%s: encode() part %s not recognised' % (f.loc(e), norm(e)[:60]))

    def _pack_fields(self, fmt, args, c, locs, f, node) -> List[tuple]:
        order, fields = parse_fmt(fmt)
        big = order in '>!'
        out = []
        i = 0
        for a in args:
            if isinstance(a, ast.Starred):
                ch = attr_chain(a.value)
                rest = len(fields) - i - (len(args) - args.index(a) - 1)
                for k in range(rest):
                    chh, w = fields[i]
                    out.append(('f', chh, w, big, ('attr', '%s[%d]' % (ch[1] if ch else norm(a.value), k))))
                    i += 1
                continue
            if i >= len(fields):
                raise AnalysisError('%s: more pack arguments than fields in %r' % (f.loc(node), fmt))
            chh, w = fields[i]
            out.append(('f', chh, w, big, self._binding(a, c, locs)))
            i += 1
        if i != len(fields):
            raise AnalysisError('%s: %d pack arguments for %d fields of %r' % (f.loc(node), i, len(fields), fmt))
        return out

    def _binding(self, a: ast.expr, c: ClassInfo, locs) -> tuple:
        if isinstance(a, ast.Constant):
            return ('const', a.value)
        # len(self.x.encode()) / self.x.encode(): the attribute's text
        if isinstance(a, ast.Call) and isinstance(a.func, ast.Name) and a.func.id == 'len' and len(a.args) == 1:
            x0 = a.args[0]
            if isinstance(x0, ast.Call) and isinstance(x0.func, ast.Attribute) and x0.func.attr == 'encode' and not x0.args:
                ch0 = attr_chain(x0.func.value)
                if ch0 and len(ch0) == 2 and ch0[0] == 'self':
                    return ('len', ch0[1])
        if isinstance(a, ast.Call) and isinstance(a.func, ast.Name) and a.func.id == 'len' and len(a.args) == 1:
            x = a.args[0]
            ch = attr_chain(x)
            if ch and len(ch) == 2 and ch[0] == 'self':
                return ('len', ch[1])
            if isinstance(x, ast.Name) and x.id in locs and locs[x.id][0] == 'text':
                return ('len', locs[x.id][1])
        if isinstance(a, ast.Name) and a.id in locs and locs[a.id][0] == 'text':
            return ('attr', locs[a.id][1])
        ch = attr_chain(a)
        if ch and len(ch) == 2 and ch[0] == 'self':
            name = ch[1]
            if name in ('pdu_type', 'item_type'):
                hit = c.find_attr(name)
                v = self.repo.try_fold(hit[1], hit[0].module, hit[0]) if hit else None
                return ('type', name, v)
            m = c.find_method(name)
            if (m is not None and m.kind == 'property' and name.endswith('_length')) or \
                    (name in ('pdu_length', 'item_length')):
                return ('length', name, self.aff_enc(a, c, locs))
            return ('attr', name)
        # a conversion of exactly one attribute (``self.x.encode()``, ``self.x.encode()[:16]``): carried by that attribute;
        # the conversion itself is judged by the value-conversion rule
        attrs = {n.attr for n in ast.walk(a) if isinstance(n, ast.Attribute) and isinstance(n.value, ast.Name) and n.value.id == 'self'}
        others = {n.id for n in ast.walk(a) if isinstance(n, ast.Name) and n.id not in ('self', 'len', 'int', 'str', 'bytes')}
        if len(attrs) == 1 and not others:
            name = next(iter(attrs))
            self.enc_conv.setdefault(getattr(self, '_cur_class', c.name), {})[name] = norm(a)
            return ('attr', name)
        return ('expr', norm(a))

    # ------------------------------------------------------------- decoder
    def decoder(self, c: ClassInfo):
        """Semantic extraction (layout_sem.py): the stream interpreted abstractly along decode()'s paths."""
        from .layout_sem import SemDecoder
        return SemDecoder(self, c).run()

    def decoder_syntactic(self, c: ClassInfo):
        """The earlier, idiom-based extraction; kept as an independent cross-check of the semantic one on shapes both
        understand (tools/cmp_decoders.py)."""
        f = c.find_method('decode')
        body = body_without_docstring(f.node)
        elems: List[tuple] = []
        env: Dict[str, Any] = {}       # local -> ('field', name) | ('aff', Affine) | ('val', name)
        gens: Dict[str, ast.FunctionDef] = {}
        ret_map: Dict[str, str] = {}
        stream_names = {'stream'}
        params = f.params
        if f.kind == 'classmethod' and len(params) >= 2:
            stream_names.add(params[1])
        pending_tuple: Dict[str, List[str]] = {}
        substreams: Dict[str, Affine] = {}   # local bound to cStringIO(stream.read(n)) -> n
        # ``return cls(list(gen()), x)``: name the computed arguments first, as the two-statement form does
        if body and isinstance(body[-1], ast.Return) and isinstance(body[-1].value, ast.Call):
            import copy as _copy0
            rcall = _copy0.copy(body[-1].value)
            hoisted: List[ast.stmt] = []
            new_args = []
            for i, a in enumerate(rcall.args):
                if _root_name(a) is None and not isinstance(a, ast.Constant):
                    nm = '__ret%d' % i
                    hoisted.append(ast.copy_location(ast.Assign(targets=[ast.Name(id=nm, ctx=ast.Store())], value=a), body[-1]))
                    a = ast.Name(id=nm, ctx=ast.Load())
                new_args.append(a)
            new_kws = []
            for kw in rcall.keywords:
                if kw.arg and _root_name(kw.value) is None and not isinstance(kw.value, ast.Constant):
                    nm = '__ret_%s' % kw.arg
                    hoisted.append(ast.copy_location(ast.Assign(targets=[ast.Name(id=nm, ctx=ast.Store())], value=kw.value), body[-1]))
                    kw = ast.keyword(arg=kw.arg, value=ast.Name(id=nm, ctx=ast.Load()))
                new_kws.append(kw)
            if hoisted:
                rcall.args, rcall.keywords = new_args, new_kws
                new_ret = ast.copy_location(ast.Return(value=rcall), body[-1])
                for h in hoisted + [new_ret]:
                    ast.fix_missing_locations(h)
                body = body[:-1] + hoisted + [new_ret]
        accs: Dict[str, bool] = {}          # locals initialised to an empty list (in-place accumulation loops)
        loop_pre: List[ast.stmt] = []       # ``t = _next_type(stream)`` before an in-place loop

        def consumed_so_far():
            consumed = Affine.c(0)
            for el in elems:
                if el[0] == 'f':
                    consumed = consumed + Affine.c(el[2])
                elif el[1] == 'read':
                    consumed = consumed + el[2]
                else:
                    return None
            own_stream = any(isinstance(x, ast.Assign) and isinstance(x.value, ast.Call) and
                             norm(x.value.func) in ('cStringIO', 'BytesIO', 'six.BytesIO', 'io.BytesIO') for x in body)
            return consumed if own_stream else None
        for st in body:
            if isinstance(st, ast.FunctionDef):
                gens[st.name] = st
                continue
            if _is_logging(st):
                continue
            if isinstance(st, ast.Assign) and len(st.targets) == 1 and isinstance(st.targets[0], ast.Name):
                v0 = st.value
                if (isinstance(v0, ast.List) and not v0.elts) or \
                        (isinstance(v0, ast.Call) and norm(v0.func) == 'list' and not v0.args and not v0.keywords):
                    accs[st.targets[0].id] = True
                    continue
                if isinstance(v0, ast.Call) and norm(v0.func) == '_next_type':
                    loop_pre.append(st)
                    continue
            if isinstance(st, ast.While):
                # in-place accumulation loop: the same shapes as the nested generators, with ``acc.append(x)``
                # where the generator says ``yield x``
                import copy as _copy
                names = {n.func.value.id for n in ast.walk(st) if isinstance(n, ast.Call) and isinstance(n.func, ast.Attribute)
                         and n.func.attr == 'append' and isinstance(n.func.value, ast.Name) and n.func.value.id in accs}
                if len(names) != 1:
                    raise AnalysisError('%s: loop in decode() accumulates into %s' % (f.loc(st), sorted(names) or 'nothing'))
                acc = names.pop()

                class _Y(ast.NodeTransformer):
                    def visit_Expr(self, n):
                        c_ = n.value
                        if isinstance(c_, ast.Call) and isinstance(c_.func, ast.Attribute) and c_.func.attr == 'append' \
                                and isinstance(c_.func.value, ast.Name) and c_.func.value.id == acc and len(c_.args) == 1:
                            return ast.copy_location(ast.Expr(value=ast.copy_location(ast.Yield(value=c_.args[0]), n)), n)
                        return n
                gbody = [_Y().visit(_copy.deepcopy(x)) for x in loop_pre + [st]]
                gnode = ast.FunctionDef(name='__inline_loop', args=ast.arguments(posonlyargs=[], args=[], kwonlyargs=[],
                                        kw_defaults=[], defaults=[]), body=gbody, decorator_list=[], lineno=st.lineno, col_offset=0)
                ast.fix_missing_locations(gnode)
                desc = self._loop_desc(gnode, c, env, f, consumed_so_far())
                elems.append(('v', 'loop', desc, acc))
                env[acc] = ('val', acc)
                loop_pre = []
                continue
            if isinstance(st, ast.Assign) and len(st.targets) == 1:
                t, v = st.targets[0], st.value
                # stream = cStringIO(raw)
                if isinstance(t, ast.Name) and isinstance(v, ast.Call) and norm(v.func) in ('cStringIO', 'BytesIO', 'six.BytesIO', 'io.BytesIO'):
                    rd0 = self._read_call(v.args[0], stream_names) if len(v.args) == 1 else None
                    if rd0 is not None:
                        # bounded sub-stream over the next n bytes of the decoder's stream
                        substreams[t.id] = self._aff_dec(rd0, env, c)
                    else:
                        stream_names.add(t.id)
                    continue
                u = self._unpack_call(v, c, stream_names)
                if u is not None:
                    fmt, size, sub0 = u
                    order, fields = parse_fmt(fmt)
                    big = order in '>!'
                    if size != sum(w for _, w in fields):
                        self.size_problems.setdefault(c.name, []).append(
                            'reads %d bytes for struct %r of size %d' % (size, fmt, sum(w for _, w in fields)))
                    names = self._target_names(t, len(fields), sub0)
                    if names is None:
                        if isinstance(t, ast.Name):
                            # values = S.unpack(...); sliced later
                            pending_tuple[t.id] = ['%s#%d' % (t.id, i) for i in range(len(fields))]
                            names = pending_tuple[t.id]
                        else:
                            raise AnalysisError('%s: unpack target %s not recognised' % (f.loc(st), norm(t)))
                    for (chh, w), n in zip(fields, names):
                        elems.append(('f', chh, w, big, n, fmt))
                        if n != '_':
                            env[n] = ('field', n)
                    continue
                # a, b, ... = values[:7] / x = values[7:]
                if isinstance(v, ast.Subscript) and isinstance(v.value, ast.Name) and v.value.id in pending_tuple \
                        and isinstance(v.slice, ast.Slice):
                    src = pending_tuple[v.value.id]
                    lo = v.slice.lower.value if isinstance(v.slice.lower, ast.Constant) else 0
                    hi = v.slice.upper.value if isinstance(v.slice.upper, ast.Constant) else len(src)
                    part = src[lo:hi]
                    if isinstance(t, (ast.Tuple, ast.List)):
                        if len(t.elts) != len(part):
                            raise AnalysisError('%s: %d targets for %d values' % (f.loc(st), len(t.elts), len(part)))
                        for tt, srcname in zip(t.elts, part):
                            nm = tt.id if isinstance(tt, ast.Name) else '_'
                            self._rename(elems, srcname, nm)
                            if nm != '_':
                                env[nm] = ('field', nm)
                    elif isinstance(t, ast.Name):
                        for k, srcname in enumerate(part):
                            self._rename(elems, srcname, '%s[%d]' % (t.id, k))
                        env[t.id] = ('tuple', t.id, len(part))
                    continue
                # x = stream.read(n)[...post...]
                rd = self._read_call(v, stream_names)
                if rd is not None and isinstance(t, ast.Name):
                    ln = self._aff_dec(rd, env, c)
                    elems.append(('v', 'read', ln, t.id))
                    env[t.id] = ('val', t.id)
                    continue
                # x = Child.decode(stream)
                ch = self._child_decode(v, c, stream_names)
                if ch is not None and isinstance(t, ast.Name):
                    elems.append(('v', 'child', ch, t.id))
                    env[t.id] = ('val', t.id)
                    continue
                # x = list(gen()) / list(cls.sub_items(stream))
                lp = self._loop(v, c, gens, env, stream_names, f, consumed_so_far(), substreams)
                if lp is not None and isinstance(t, ast.Name):
                    elems.append(('v', 'loop', lp, t.id))
                    env[t.id] = ('val', t.id)
                    continue
                # derived locals: n = a - b ; name = name.strip(...).decode()
                if isinstance(t, ast.Name):
                    try:
                        env[t.id] = ('aff', self._aff_dec(v, env, c))
                        continue
                    except AnalysisError:
                        pass
                    src = _root_name(v)
                    if src is not None and src in env:
                        env[t.id] = env[src] if env[src][0] != 'field' else ('alias', src)
                        if env[src][0] == 'field':
                            self._rename(elems, src, t.id) if src != t.id else None
                            env[t.id] = ('field', t.id)
                        continue
                raise AnalysisError('%s: statement %s in decode() is not a recognised idiom' % (f.loc(st), norm(st)[:70]))
            if isinstance(st, ast.Return):
                call = st.value
                if not (isinstance(call, ast.Call) and isinstance(call.func, ast.Name) and call.func.id == 'cls'):
                    raise AnalysisError('%s: decode() must return cls(...)' % f.loc(st))
                init = c.find_method('__init__')
                pnames = init.params[1:] if init else []
                for i, a in enumerate(call.args):
                    if i < len(pnames):
                        ret_map[pnames[i]] = _root_name(a) or norm(a)
                for kw in call.keywords:
                    if kw.arg:
                        ret_map[kw.arg] = _root_name(kw.value) or norm(kw.value)
                continue
            raise AnalysisError('%s: statement %s in decode() is not a recognised idiom' % (f.loc(st), norm(st)[:70]))
        return elems, f, ret_map

    @staticmethod
    def _rename(elems, old, new):
        for i, e in enumerate(elems):
            if e[0] == 'f' and e[4] == old:
                elems[i] = e[:4] + (new,) + e[5:]

    def _target_names(self, t, n, sub0) -> Optional[List[str]]:
        if sub0:
            if isinstance(t, ast.Name) and n == 1:
                return [t.id]
            return None
        if isinstance(t, (ast.Tuple, ast.List)) and len(t.elts) == n:
            return [x.id if isinstance(x, ast.Name) else '_' for x in t.elts]
        return None

    def _unpack_call(self, v, c, stream_names):
        """S.unpack(stream.read(N)) / struct.unpack(fmt, stream.read(N))[0] -> (fmt, N, sub0)"""
        sub0 = False
        if isinstance(v, ast.Subscript) and isinstance(v.slice, ast.Constant) and v.slice.value == 0:
            v, sub0 = v.value, True
        if not (isinstance(v, ast.Call) and isinstance(v.func, ast.Attribute) and v.func.attr == 'unpack'):
            return None
        sv = self.struct_of(v.func.value, c)
        args = list(v.args)
        fmt = None
        if sv is not None:
            fmt = sv.fmt
        elif norm(v.func.value) == 'struct' and args and isinstance(args[0], ast.Constant):
            fmt = args[0].value
            args = args[1:]
        if fmt is None or len(args) != 1:
            return None
        rd = self._read_call(args[0], stream_names)
        if rd is None:
            return None
        size = None
        if isinstance(rd, ast.Constant) and isinstance(rd.value, int):
            size = rd.value
        else:
            val = self.repo.try_fold(rd, c.module, c)
            if isinstance(val, int):
                size = val
            elif isinstance(rd, ast.Attribute) and rd.attr == 'size':
                sv2 = self.struct_of(rd.value, c)
                if sv2 is not None:
                    size = sv2.size
        if size is None:
            raise AnalysisError('%s.decode: read size %s of a fixed struct is not constant' % (c.name, norm(rd)))
        return fmt, size, sub0

    @staticmethod
    def _read_call(v, stream_names):
        """peel post-processing (.decode(), .strip(), uid.UID(), int()) down to stream.read(n) -> n expr"""
        cur = v
        for _ in range(6):
            if isinstance(cur, ast.Call):
                if isinstance(cur.func, ast.Attribute) and cur.func.attr == 'read' and isinstance(cur.func.value, ast.Name) \
                        and cur.func.value.id in stream_names and len(cur.args) == 1:
                    return cur.args[0]
                if isinstance(cur.func, ast.Attribute) and cur.func.attr in ('decode', 'strip', 'rstrip'):
                    cur = cur.func.value
                    continue
                if norm(cur.func) in ('uid.UID', 'UID', 'int', 'bytes', 'str') and len(cur.args) == 1:
                    cur = cur.args[0]
                    continue
            return None
        return None

    def _aff_dec(self, e, env, c) -> Affine:
        if isinstance(e, ast.Constant) and isinstance(e.value, int):
            return Affine.c(e.value)
        if isinstance(e, ast.Name):
            if e.id in env:
                v = env[e.id]
                if v[0] == 'field':
                    return Affine.sym(('name', e.id))
                if v[0] == 'aff':
                    return v[1]
            raise AnalysisError('%s.decode: %s is not a decoded length' % (c.name, e.id))
        if isinstance(e, ast.BinOp) and isinstance(e.op, (ast.Add, ast.Sub)):
            a, b = self._aff_dec(e.left, env, c), self._aff_dec(e.right, env, c)
            return a + b if isinstance(e.op, ast.Add) else a - b
        if isinstance(e, ast.Call) and isinstance(e.func, ast.Name) and e.func.id == 'int' and len(e.args) == 1:
            return self._aff_dec(e.args[0], env, c)
        v = self.repo.try_fold(e, c.module, c)
        if isinstance(v, int):
            return Affine.c(v)
        if isinstance(e, ast.Attribute) and e.attr == 'size':
            sv = self.struct_of(e.value, c)
            if sv is not None:
                return Affine.c(sv.size)
        raise AnalysisError('%s.decode: length expression %s not affine' % (c.name, norm(e)))

    def _child_decode(self, v, c, stream_names) -> Optional[str]:
        if isinstance(v, ast.Call) and isinstance(v.func, ast.Attribute) and v.func.attr == 'decode' and len(v.args) == 1 \
                and isinstance(v.args[0], ast.Name) and v.args[0].id in stream_names:
            try:
                r = self.repo.resolve_expr(v.func.value, c.module, c)
            except NotConst:
                return None
            if isinstance(r, ClassRef):
                return r.name
        return None

    # ------------------------------------------------------------- loops
    def _loop(self, v, c, gens, env, stream_names, f, consumed=None, substreams=None) -> Optional[LoopDesc]:
        if not (isinstance(v, ast.Call) and isinstance(v.func, ast.Name) and v.func.id == 'list' and len(v.args) == 1):
            return None
        inner = v.args[0]
        if not isinstance(inner, ast.Call):
            return None
        gnode = None
        bound = None
        gcls = c
        if isinstance(inner.func, ast.Name) and inner.func.id in gens:
            gnode = gens[inner.func.id]
        else:
            ch = attr_chain(inner.func)
            if ch and len(ch) == 2 and ch[0] in ('cls', 'self', c.name):
                m = c.find_method(ch[1])
                if m is not None:
                    gnode = m.node
                    gcls = m.cls
        if gnode is None:
            raise AnalysisError('%s: generator %s not found' % (f.loc(v), norm(inner.func)))
        # argument: the stream itself or a bounded sub-stream cStringIO(stream.read(n))
        if inner.args:
            a = inner.args[0]
            if isinstance(a, ast.Name) and a.id in stream_names:
                pass
            elif isinstance(a, ast.Name) and substreams and a.id in substreams:
                bound = substreams[a.id]
            elif isinstance(a, ast.Call) and norm(a.func) in ('cStringIO', 'BytesIO', 'six.BytesIO', 'io.BytesIO') and len(a.args) == 1:
                rd = self._read_call(a.args[0], stream_names)
                if rd is None:
                    raise AnalysisError('%s: sub-stream %s not recognised' % (f.loc(v), norm(a)))
                bound = self._aff_dec(rd, env, c)
            else:
                raise AnalysisError('%s: generator argument %s not recognised' % (f.loc(v), norm(a)))
        desc = self._loop_desc(gnode, gcls, env, f, consumed)
        if bound is not None:
            desc.bound = bound
        return desc

    def _loop_desc(self, gnode: ast.FunctionDef, c: ClassInfo, env, f, consumed=None) -> LoopDesc:
        body = body_without_docstring(gnode)
        loop = None
        pre: Dict[str, ast.expr] = {}
        for st in body:
            if isinstance(st, ast.While):
                loop = st
                break
            if isinstance(st, ast.Assign) and len(st.targets) == 1 and isinstance(st.targets[0], ast.Name):
                pre[st.targets[0].id] = st.value
            else:
                raise AnalysisError('%s: generator statement %s not recognised' % (f.loc(st), norm(st)[:60]))
        if loop is None:
            raise AnalysisError('%s: generator without while loop' % f.loc(gnode))
        test = loop.test
        # ``limit != counter`` is ``counter != limit``
        if isinstance(test, ast.Compare) and len(test.ops) == 1 and not (isinstance(test.left, ast.Name) and test.left.id in pre) \
                and isinstance(test.comparators[0], ast.Name) and test.comparators[0].id in pre:
            flip = {ast.Lt: ast.Gt, ast.Gt: ast.Lt, ast.LtE: ast.GtE, ast.GtE: ast.LtE, ast.Eq: ast.Eq, ast.NotEq: ast.NotEq}
            if type(test.ops[0]) in flip:
                test = ast.copy_location(ast.Compare(left=test.comparators[0], ops=[flip[type(test.ops[0])]()],
                                                     comparators=[test.left]), test)

        def is_next_type(e):
            return isinstance(e, ast.Call) and norm(e.func) == '_next_type'
        # position loop: ``while stream.tell() < limit`` on the decoder's own stream
        if isinstance(test, ast.Compare) and len(test.ops) == 1 and isinstance(test.left, ast.Call) \
                and norm(test.left.func).endswith('.tell') and isinstance(test.ops[0], (ast.Lt, ast.NotEq)):
            if consumed is None:
                raise AnalysisError('%s: position-bounded loop on a stream whose start is not known' % f.loc(loop))
            d = LoopDesc('counted', node=loop)
            # the position counts from the start of the buffer, i.e. it includes what was consumed before the loop
            d.bound = self._aff_dec(test.comparators[0], env, c) - consumed
            child = None
            for st in ast.walk(loop):
                if isinstance(st, ast.Call):
                    ch = self._child_decode(st, c, {'stream'})
                    if ch:
                        child = ch
            if child is None:
                raise AnalysisError('%s: position loop decodes no child' % f.loc(loop))
            d.accepts = {'*': child}
            return d
        # counted loop
        if isinstance(test, ast.Compare) and len(test.ops) == 1 and isinstance(test.left, ast.Name) and test.left.id in pre \
                and isinstance(pre[test.left.id], ast.Constant) and pre[test.left.id].value == 0:
            counter = test.left.id
            limit = test.comparators[0]
            d = LoopDesc('counted', node=loop)
            d.bound = self._aff_dec(limit, env, c)
            if not isinstance(test.ops[0], (ast.NotEq, ast.Lt)):
                d.counter_ok = False
            child = None
            inc_ok = False
            for st in ast.walk(loop):
                if isinstance(st, ast.Assign) and isinstance(st.value, ast.Call):
                    ch = self._child_decode(st.value, c, {'stream'})
                    if ch:
                        child = (st.targets[0].id if isinstance(st.targets[0], ast.Name) else None, ch)
                if isinstance(st, ast.AugAssign) and isinstance(st.target, ast.Name) and st.target.id == counter \
                        and isinstance(st.op, ast.Add):
                    val = st.value
                    tl = val.func if isinstance(val, ast.Call) and not val.args else val
                    chn = attr_chain(tl)
                    if child and chn == (child[0], 'total_length'):
                        inc_ok = True
            if child is None:
                raise AnalysisError('%s: counted loop decodes no child' % f.loc(loop))
            d.accepts = {'*': child[1]}
            d.counter_ok = d.counter_ok and inc_ok
            d.advances = True
            return d
        # type-driven loops
        tvar = None
        if isinstance(test, ast.Compare) and len(test.ops) == 1 and is_next_type(test.left) and isinstance(test.ops[0], ast.Eq):
            lit = self.repo.try_fold(test.comparators[0], c.module, c)
            d = LoopDesc('until', node=loop)
            ys = [n for n in ast.walk(loop) if isinstance(n, ast.Yield)]
            if len(ys) != 1:
                raise AnalysisError('%s: until-loop with %d yields' % (f.loc(loop), len(ys)))
            ch = self._child_decode(ys[0].value, c, {'stream'})
            if ch is None:
                raise AnalysisError('%s: until-loop yields %s' % (f.loc(loop), norm(ys[0].value)))
            d.accepts = {lit: ch}
            return d
        if isinstance(test, ast.Name) and test.id in pre and is_next_type(pre[test.id]):
            tvar = test.id
        elif isinstance(test, ast.Compare) and isinstance(test.left, ast.Name) and test.left.id in pre \
                and is_next_type(pre[test.left.id]) and isinstance(test.comparators[0], ast.Constant) \
                and test.comparators[0].value is None and isinstance(test.ops[0], ast.IsNot):
            tvar = test.left.id
        if tvar is None:
            raise AnalysisError('%s: loop condition %s not recognised' % (f.loc(loop), norm(test)))
        # re-reads the type at the end of each iteration?
        rereads = any(isinstance(n, ast.Assign) and isinstance(n.targets[0], ast.Name) and n.targets[0].id == tvar
                      and is_next_type(n.value) for n in ast.walk(loop))
        d = LoopDesc('dispatch', node=loop)
        d.advances = rereads
        # table dispatch: factory = TABLE.get(tvar, Default)
        for n in ast.walk(loop):
            if isinstance(n, ast.Call) and isinstance(n.func, ast.Attribute) and n.func.attr == 'get' and n.args \
                    and isinstance(n.args[0], ast.Name) and n.args[0].id == tvar:
                tab = self.repo.try_fold(n.func.value, c.module, c)
                if isinstance(tab, dict):
                    d.kind = 'table'
                    d.table_name = norm(n.func.value)
                    d.accepts = {k: v.name for k, v in tab.items() if isinstance(v, ClassRef)}
                    if len(n.args) > 1:
                        try:
                            r = self.repo.resolve_expr(n.args[1], c.module, c)
                        except NotConst:
                            r = None
                        if isinstance(r, ClassRef):
                            d.default = r.name
            if isinstance(n, ast.Subscript) and isinstance(n.slice, ast.Name) and n.slice.id == tvar and isinstance(n.ctx, ast.Load):
                tab = self.repo.try_fold(n.value, c.module, c)
                if isinstance(tab, dict):
                    d.kind = 'table'
                    d.table_name = norm(n.value)
                    d.accepts = {k: v.name for k, v in tab.items() if isinstance(v, ClassRef)}
                    d.else_raises = True
        if d.kind == 'table':
            return d
        # if / elif literal dispatch
        def walk_if(node):
            if isinstance(node, ast.If):
                t = node.test
                if isinstance(t, ast.Compare) and len(t.ops) == 1 and isinstance(t.left, ast.Name) and t.left.id == tvar \
                        and isinstance(t.ops[0], ast.Eq):
                    lit = self.repo.try_fold(t.comparators[0], c.module, c)
                    ys = [n for st in node.body for n in ast.walk(st) if isinstance(n, ast.Yield)]
                    if len(ys) == 1:
                        ch = self._child_decode(ys[0].value, c, {'stream'})
                        if ch is None:
                            raise AnalysisError('%s: dispatch branch yields %s' % (f.loc(node), norm(ys[0].value)))
                        d.accepts[lit] = ch
                    for st in node.orelse:
                        walk_if(st)
                    if node.orelse and not isinstance(node.orelse[0], ast.If):
                        if any(isinstance(n, ast.Raise) for st in node.orelse for n in ast.walk(st)):
                            d.else_raises = True
                        elif any(isinstance(n, ast.Yield) for st in node.orelse for n in ast.walk(st)):
                            ys2 = [n for st in node.orelse for n in ast.walk(st) if isinstance(n, ast.Yield)]
                            ch = self._child_decode(ys2[0].value, c, {'stream'})
                            d.default = ch
                else:
                    raise AnalysisError('%s: dispatch test %s not recognised' % (f.loc(node), norm(t)))
        ifs = [st for st in loop.body if isinstance(st, ast.If)]
        if not ifs:
            raise AnalysisError('%s: dispatch loop without if-chain or table' % f.loc(loop))
        walk_if(ifs[0])
        return d

    # ------------------------------------------------------------- all together
    def layout(self, c: ClassInfo) -> CodecLayout:
        if c.name in self.layouts:
            return self.layouts[c.name]
        enc, ef, locs = self.encoder(c)
        dec, df, ret_map = self.decoder(c)
        total = self.total_length(c)
        length_prop = {}
        tattr, tconst = None, None
        for e in enc:
            if e[0] == 'f' and e[4][0] == 'length':
                length_prop[e[4][1]] = e[4][2]
            if e[0] == 'f' and e[4][0] == 'type':
                tattr, tconst = e[4][1], e[4][2]
        if tattr is None:
            for name in ('pdu_type', 'item_type'):
                hit = c.find_attr(name)
                if hit:
                    tattr, tconst = name, self.repo.try_fold(hit[1], hit[0].module, hit[0])
        lay = CodecLayout(c, enc, dec, ef, df, self.ctor_map(c), ret_map, total, length_prop, tattr, tconst)
        self.layouts[c.name] = lay
        return lay


def _is_logging(st: ast.stmt) -> bool:
    """a pure logging / warnings call statement (no influence on the bytes)"""
    if isinstance(st, ast.Expr) and isinstance(st.value, ast.Call):
        t = norm(st.value.func)
        root = t.split('.')[0]
        return bool(re.match(r'(?i)^_*(log|logger|logging|warnings)\w*$', root)) or t.startswith('logging.getLogger(') \
            or bool(re.match(r'(?i)^_\w*log\w*$', root))
    return False


def _subst_names(e: ast.expr, mapping: Dict[str, ast.expr]) -> ast.expr:
    """copy of ``e`` with loads of the mapped local names replaced by their (already substituted) definitions"""
    if not mapping:
        return e
    import copy

    class _S(ast.NodeTransformer):
        def visit_Name(self, n):
            if isinstance(n.ctx, ast.Load) and n.id in mapping:
                return copy.deepcopy(mapping[n.id])
            return n

        def _comp(self, n):
            bound = {x.id for g in n.generators for x in ast.walk(g.target) if isinstance(x, ast.Name)}
            if bound & set(mapping):
                return n
            return self.generic_visit(n)
        visit_GeneratorExp = visit_ListComp = visit_SetComp = visit_DictComp = _comp
    out = _S().visit(copy.deepcopy(e))
    ast.fix_missing_locations(out)
    return out


def _single_return(m: FuncInfo) -> ast.expr:
    """the value a property / length method returns: one return, optionally preceded by plain local
    assignments and logging, which are substituted into it"""
    body = body_without_docstring(m.node)
    locs: Dict[str, ast.expr] = {}
    for st in body[:-1]:
        if isinstance(st, ast.Assign) and len(st.targets) == 1 and isinstance(st.targets[0], ast.Name):
            locs[st.targets[0].id] = _subst_names(st.value, locs)
        elif _is_logging(st):
            continue
        else:
            raise AnalysisError('%s: %s is not a single return expression' % (m.loc(), m.qualname))
    if body and isinstance(body[-1], ast.Return) and body[-1].value is not None:
        return _subst_names(body[-1].value, locs)
    raise AnalysisError('%s: %s is not a single return expression' % (m.loc(), m.qualname))


def _root_name(e: ast.expr) -> Optional[str]:
    """variable at the root of a value expression with post-processing calls peeled off"""
    cur = e
    for _ in range(8):
        if isinstance(cur, ast.Name):
            return cur.id
        if isinstance(cur, ast.Call):
            if isinstance(cur.func, ast.Attribute) and cur.func.attr in ('decode', 'strip', 'rstrip', 'encode'):
                cur = cur.func.value
                continue
            if norm(cur.func) in ('uid.UID', 'UID', 'int', 'bytes', 'str', 'list', 'tuple') and len(cur.args) == 1:
                cur = cur.args[0]
                continue
        return None
    return None
