"""Source model of the analysed package.

Parses every module of $VERIF_REPO/pynetdicom2 with the standard ``ast`` module
(nothing of the package is imported or executed) and offers

* module / class / function tables with resolved base classes (MRO),
* an import-alias map per module (``from . import pdu`` -> module ``pdu``),
* a constant folder for the literal tables the protocol knowledge lives in.

An anchor (module, class, function, table) that cannot be found raises
:class:`AnalysisError` -- callers turn that into exit code 2, never into a pass.
"""
from __future__ import annotations

import ast
import hashlib
import os
import struct as _struct
from dataclasses import dataclass, field
from typing import Any, Dict, List, Optional, Tuple

PKG = 'pynetdicom2'


class AnalysisError(Exception):
    """The analysis cannot decide (vanished anchor, unmodelled construct)."""


class NotConst(Exception):
    """Expression does not fold to a constant."""


def repo_root() -> str:
    return os.environ.get('VERIF_REPO', '/repo')


# --------------------------------------------------------------------------- values

@dataclass(frozen=True)
class StructVal:
    """A ``struct.Struct(fmt)`` object folded to its format."""
    fmt: str

    @property
    def size(self) -> int:
        return _struct.calcsize(self.fmt)


@dataclass(frozen=True)
class ClassRef:
    module: str
    name: str

    def __repr__(self):
        return '<class %s.%s>' % (self.module, self.name)


@dataclass(frozen=True)
class FuncRef:
    module: str
    qualname: str

    def __repr__(self):
        return '<func %s.%s>' % (self.module, self.qualname)


@dataclass(frozen=True)
class BoundMethod:
    name: str  # ``self.<name>``

    def __repr__(self):
        return '<self.%s>' % self.name


@dataclass(frozen=True)
class ExtRef:
    """Reference to something outside the analysed package (``struct.pack``)."""
    path: str

    def __repr__(self):
        return '<ext %s>' % self.path


@dataclass(frozen=True)
class ModRef:
    name: str


# --------------------------------------------------------------------------- model

@dataclass
class FuncInfo:
    module: 'Module'
    cls: Optional['ClassInfo']
    name: str
    node: ast.AST
    kind: str  # function | method | staticmethod | classmethod | property | setter
    parent: Optional['FuncInfo'] = None
    nested: Dict[str, 'FuncInfo'] = field(default_factory=dict)

    @property
    def qualname(self) -> str:
        parts = []
        f = self
        while f is not None:
            parts.append(f.name if f.kind != 'setter' else f.name + '.setter')
            if f.parent is None and f.cls is not None:
                parts.append(f.cls.name)
            f = f.parent
        return '.'.join(reversed(parts))

    @property
    def key(self) -> str:
        return '%s:%s' % (self.module.name, self.qualname)

    @property
    def params(self) -> List[str]:
        a = self.node.args
        return [x.arg for x in a.posonlyargs + a.args]

    def loc(self, node: Optional[ast.AST] = None) -> str:
        n = node if node is not None else self.node
        return '%s:%d' % (self.module.relpath, getattr(n, 'lineno', 0))


@dataclass
class ClassInfo:
    module: 'Module'
    name: str
    node: ast.ClassDef
    base_exprs: List[ast.expr]
    attrs: Dict[str, ast.expr] = field(default_factory=dict)
    methods: Dict[str, FuncInfo] = field(default_factory=dict)
    setters: Dict[str, FuncInfo] = field(default_factory=dict)
    bases: List['ClassInfo'] = field(default_factory=list)
    ext_bases: List[str] = field(default_factory=list)

    @property
    def key(self) -> str:
        return '%s:%s' % (self.module.name, self.name)

    def mro(self) -> List['ClassInfo']:
        # C3 is not needed: the package only uses shallow hierarchies; use
        # depth-first left-to-right with late duplicates removed (== C3 here).
        out: List[ClassInfo] = []

        def walk(c):
            out.append(c)
            for b in c.bases:
                walk(b)
        walk(self)
        seen = set()
        res = []
        for c in reversed(out):
            if c.key not in seen:
                seen.add(c.key)
                res.append(c)
        res.reverse()
        # keep ``self`` first
        res.remove(self)
        return [self] + res

    def find_attr(self, name: str) -> Optional[Tuple['ClassInfo', ast.expr]]:
        for c in self.mro():
            if name in c.attrs:
                return c, c.attrs[name]
        return None

    def find_method(self, name: str) -> Optional[FuncInfo]:
        for c in self.mro():
            if name in c.methods:
                return c.methods[name]
            if name in c.attrs:
                # ``name = staticmethod(f)`` / ``classmethod(f)`` / ``name = f`` with f a function of the class's module: the
                # method is that function
                v = c.attrs[name]
                kind = 'method'
                if isinstance(v, ast.Call) and isinstance(v.func, ast.Name) and v.func.id in ('staticmethod', 'classmethod') \
                        and len(v.args) == 1 and not v.keywords:
                    kind, v = v.func.id, v.args[0]
                if isinstance(v, ast.Name) and v.id in c.module.functions:
                    f = c.module.functions[v.id]
                    return FuncInfo(f.module, c, name, f.node, kind, None)
                return None
        return None

    def find_setter(self, name: str) -> Optional[FuncInfo]:
        for c in self.mro():
            if name in c.setters:
                return c.setters[name]
        return None

    def is_subclass_of(self, other: 'ClassInfo') -> bool:
        return any(c.key == other.key for c in self.mro())

    def all_ext_bases(self) -> List[str]:
        out = []
        for c in self.mro():
            out.extend(c.ext_bases)
        return out

    def loc(self) -> str:
        return '%s:%d' % (self.module.relpath, self.node.lineno)


@dataclass
class Module:
    name: str
    path: str
    relpath: str
    src: str
    tree: ast.Module
    sha256: str
    imports: Dict[str, Any] = field(default_factory=dict)
    star_imports: List[str] = field(default_factory=list)
    classes: Dict[str, ClassInfo] = field(default_factory=dict)
    functions: Dict[str, FuncInfo] = field(default_factory=dict)
    assigns: Dict[str, List[ast.expr]] = field(default_factory=dict)
    assign_nodes: Dict[str, List[ast.stmt]] = field(default_factory=dict)


def _decorator_names(node) -> List[str]:
    out = []
    for d in node.decorator_list:
        out.append(ast.unparse(d))
    return out


class Repo:
    def __init__(self, root: Optional[str] = None, normalize: bool = True):
        self.root = root or repo_root()
        self.pkgdir = os.path.join(self.root, PKG)
        if not os.path.isdir(self.pkgdir):
            raise AnalysisError('package directory %s not found' % self.pkgdir)
        self.modules: Dict[str, Module] = {}
        self.consulted: Dict[str, str] = {}
        parsed = {}
        for fn in sorted(os.listdir(self.pkgdir)):
            if fn.endswith('.py'):
                parsed[fn] = self._parse(fn)
        self.renamed_back: Dict[str, str] = {}
        if os.environ.get('VERIF_NO_NORMALIZE') != '1':
            from .renames import (canonical_imports, desugar_match, inline_decorators, materialise_dataclass_init, materialise_properties,
                                  plain_assignments, specialise_mixins, undo_renames)
            trees_ = {fn[:-3]: t[3] for fn, t in parsed.items()}
            self.annotated_locals = plain_assignments(trees_)
            self.match_statements = desugar_match(trees_)
            self.dataclass_inits = materialise_dataclass_init(trees_)
            self.canonical_imports = canonical_imports(trees_, PKG)
            self.renamed_back = undo_renames(trees_)
            self.specialised = specialise_mixins(trees_)
            self.undecorated = inline_decorators(trees_)
            self.materialised = materialise_properties(trees_)
        for fn in sorted(parsed):
            self._load(fn, parsed[fn])
        for m in self.modules.values():
            self._resolve_bases(m)
        self._register_namedtuples()
        self.normalized_helpers = []
        self.normalize_stats = {}
        if normalize and os.environ.get('VERIF_NO_NORMALIZE') != '1':
            from .normalize import normalize_repo
            self.normalize_stats = normalize_repo(self)

    def _register_namedtuples(self):
        from . import sym as _sym
        found: Dict[str, List[str]] = {}
        clash = set()
        for m in self.modules.values():
            for name, vals in m.assigns.items():
                if len(vals) != 1:
                    continue
                v = vals[0]
                if isinstance(v, ast.Call) and ast.unparse(v.func) in ('typing.NamedTuple', 'NamedTuple') and len(v.args) == 2 \
                        and isinstance(v.args[1], (ast.List, ast.Tuple)) and all(
                            isinstance(x, ast.Tuple) and len(x.elts) == 2 and isinstance(x.elts[0], ast.Constant) for x in v.args[1].elts):
                    found[name] = [x.elts[0].value for x in v.args[1].elts]
                    continue
                if isinstance(v, ast.Call) and ast.unparse(v.func) in ('collections.namedtuple', 'namedtuple') and len(v.args) >= 2 \
                        and isinstance(v.args[0], ast.Constant):
                    f = v.args[1]
                    fields = None
                    if isinstance(f, (ast.List, ast.Tuple)) and all(isinstance(x, ast.Constant) and isinstance(x.value, str) for x in f.elts):
                        fields = [x.value for x in f.elts]
                    elif isinstance(f, ast.Constant) and isinstance(f.value, str):
                        fields = f.value.replace(',', ' ').split()
                    if fields:
                        if name in found and found[name] != fields:
                            clash.add(name)
                        found[name] = fields
        for m in self.modules.values():
            for c in m.classes.values():
                if self.is_value_class(c):
                    fields = [st.target.id for st in c.node.body if isinstance(st, ast.AnnAssign) and isinstance(st.target, ast.Name)]
                    if fields and c.name not in found:
                        found[c.name] = fields
        # ``s = StatusInfo``: another name of the same record type
        for m in self.modules.values():
            for name, vals in m.assigns.items():
                if len(vals) == 1 and isinstance(vals[0], ast.Name) and vals[0].id in found and name not in found:
                    found[name] = found[vals[0].id]
        _sym.NAMEDTUPLE_FIELDS.clear()
        _sym.NAMEDTUPLE_FIELDS.update({k: v for k, v in found.items() if k not in clash})

    # ---------------------------------------------------------------- loading
    def _parse(self, fn: str):
        path = os.path.join(self.pkgdir, fn)
        with open(path, 'rb') as f:
            raw = f.read()
        src = raw.decode('utf8')
        try:
            tree = ast.parse(src, filename=path)
        except SyntaxError as exc:
            raise AnalysisError('cannot parse %s: %s' % (path, exc))
        return path, raw, src, tree

    def _load(self, fn: str, parsed=None):
        path, raw, src, tree = parsed if parsed is not None else self._parse(fn)
        name = fn[:-3]
        m = Module(name, path, '%s/%s' % (PKG, fn), src, tree,
                   hashlib.sha256(raw).hexdigest())
        self.modules[name] = m
        self._index_body(m, tree.body)

    def _index_body(self, m: Module, body: List[ast.stmt]):
        for st in body:
            if isinstance(st, (ast.Import, ast.ImportFrom)):
                self._index_import(m, st)
            elif isinstance(st, ast.ClassDef):
                m.classes[st.name] = self._index_class(m, st)
            elif isinstance(st, (ast.FunctionDef, ast.AsyncFunctionDef)):
                m.functions[st.name] = self._index_func(m, None, st, None)
            elif isinstance(st, ast.Assign):
                for t in st.targets:
                    if isinstance(t, ast.Name):
                        m.assigns.setdefault(t.id, []).append(st.value)
                        m.assign_nodes.setdefault(t.id, []).append(st)
            elif isinstance(st, ast.AnnAssign) and isinstance(st.target, ast.Name) and st.value:
                m.assigns.setdefault(st.target.id, []).append(st.value)
                m.assign_nodes.setdefault(st.target.id, []).append(st)
            elif isinstance(st, (ast.If, ast.Try)):
                # ``if six.PY3: from six import BytesIO as cStringIO`` etc.
                for sub in ast.iter_child_nodes(st):
                    if isinstance(sub, ast.stmt):
                        self._index_body(m, [sub])
                    elif isinstance(sub, ast.ExceptHandler):
                        self._index_body(m, sub.body)

    def _index_import(self, m: Module, st):
        if isinstance(st, ast.Import):
            for a in st.names:
                m.imports[a.asname or a.name.split('.')[0]] = ExtRef(a.name if a.asname else a.name.split('.')[0])
            return
        mod = st.module or ''
        if st.level >= 1:
            # relative import inside the package
            for a in st.names:
                if a.name == '*':
                    m.star_imports.append(mod)
                elif not mod:
                    m.imports[a.asname or a.name] = ModRef(a.name)
                else:
                    m.imports[a.asname or a.name] = ('from', mod, a.name)
        else:
            for a in st.names:
                if a.name == '*':
                    continue
                m.imports[a.asname or a.name] = ExtRef('%s.%s' % (mod, a.name))

    def _index_class(self, m: Module, node: ast.ClassDef) -> ClassInfo:
        c = ClassInfo(m, node.name, node, list(node.bases))
        for st in node.body:
            if isinstance(st, ast.Assign):
                for t in st.targets:
                    if isinstance(t, ast.Name):
                        c.attrs[t.id] = st.value
            elif isinstance(st, ast.AnnAssign) and isinstance(st.target, ast.Name) and st.value:
                c.attrs[st.target.id] = st.value
            elif isinstance(st, (ast.FunctionDef, ast.AsyncFunctionDef)):
                f = self._index_func(m, c, st, None)
                if f.kind == 'setter':
                    c.setters[st.name] = f
                else:
                    c.methods[st.name] = f
        return c

    def _index_func(self, m, cls, node, parent) -> FuncInfo:
        decos = _decorator_names(node)
        kind = 'method' if cls is not None and parent is None else 'function'
        for d in decos:
            if d == 'staticmethod':
                kind = 'staticmethod'
            elif d == 'classmethod':
                kind = 'classmethod'
            elif d == 'property':
                kind = 'property'
            elif d.endswith('.setter'):
                kind = 'setter'
        f = FuncInfo(m, cls, node.name, node, kind, parent)
        for sub in ast.walk(node):
            if sub is node:
                continue
        # direct nested defs only (one level at a time)
        for st in _direct_defs(node):
            f.nested[st.name] = self._index_func(m, cls, st, f)
        return f

    def _resolve_bases(self, m: Module):
        for c in m.classes.values():
            for b in c.base_exprs:
                r = None
                try:
                    r = self.resolve_expr(b, m)
                except NotConst:
                    r = None
                if isinstance(r, ClassRef):
                    c.bases.append(self.cls(r.module, r.name))
                else:
                    c.ext_bases.append(ast.unparse(b))

    # ---------------------------------------------------------------- access
    def module(self, name: str) -> Module:
        if name not in self.modules:
            raise AnalysisError('module %s.%s not found' % (PKG, name))
        m = self.modules[name]
        self.consulted[m.relpath] = m.sha256
        return m

    def _moved(self, module: str, name: str):
        """a module-level function / class that now lives in another module of the package and is imported under its old
        name where it used to be defined (``from .fragmentation import fragment``): (new module, name) or None"""
        m = self.modules.get(module)
        imp = m.imports.get(name) if m is not None else None
        if isinstance(imp, tuple) and len(imp) == 3 and imp[1] in self.modules and imp[1] != module:
            return imp[1], imp[2]
        return None

    def cls(self, module: str, name: str) -> ClassInfo:
        m = self.module(module)
        if name not in m.classes:
            mv = self._moved(module, name)
            if mv is not None and mv[1] in self.modules[mv[0]].classes:
                return self.modules[mv[0]].classes[mv[1]]
            raise AnalysisError('class %s.%s not found' % (module, name))
        return m.classes[name]

    def func(self, module: str, qualname: str) -> FuncInfo:
        m = self.module(module)
        parts = qualname.split('.')
        cur: Any = None
        if parts[0] in m.classes and len(parts) > 1:
            c = m.classes[parts[0]]
            name = parts[1]
            rest = parts[2:]
            if rest and rest[0] == 'setter':
                cur = c.setters.get(name)
                rest = rest[1:]
            else:
                cur = c.methods.get(name)
                if cur is None and name in c.attrs:
                    cur = c.find_method(name)      # ``name = staticmethod(module_function)``
            for p in rest:
                cur = cur.nested.get(p) if cur else None
        else:
            cur = m.functions.get(parts[0])
            for p in parts[1:]:
                cur = cur.nested.get(p) if cur else None
        if cur is None:
            mv = self._moved(module, parts[0])
            if mv is not None:
                return self.func(mv[0], '.'.join([mv[1]] + parts[1:]))
            raise AnalysisError('function %s:%s not found' % (module, qualname))
        return cur

    def is_helper(self, fi: FuncInfo) -> bool:
        """Is this function a helper the analyses look into rather than a named anchor?  Private
        functions the rules do not anchor on, and functions introduced after the rule instances
        were confirmed (oracles/inventory.py)."""
        from .normalize import NO_INLINE
        from .oracles.inventory import FUNCTIONS
        if fi.name.startswith('__') or fi.name in NO_INLINE or fi.parent is not None:
            return False
        if fi.kind not in ('function', 'method', 'staticmethod', 'classmethod'):
            return False
        if fi.key in self._moved_anchors():
            return False
        return fi.name.startswith('_') or fi.key not in FUNCTIONS

    def _moved_anchors(self):
        """module-level functions of the frozen inventory that now live in another module and are imported back under their
        name (``from .negotiation import build_pres_context_def_list``): still the anchors they were, not helpers"""
        cache = getattr(self, '_moved_anchor_cache', None)
        if cache is None:
            from .oracles.inventory import FUNCTIONS
            cache = set()
            for key in FUNCTIONS:
                mod, _, qn = key.partition(':')
                m = self.modules.get(mod)
                if m is None or '.' in qn or qn in m.functions or qn not in m.imports:
                    continue
                try:
                    r = self.resolve_name(qn, m)
                except Exception:
                    continue
                if isinstance(r, FuncRef) and r.module != mod:
                    cache.add('%s:%s' % (r.module, r.qualname))
            self._moved_anchor_cache = cache
        return cache

    def unique_helper_method(self, name: str) -> Optional[FuncInfo]:
        """the one method of that name in the package, if it is a helper (private or absent from the frozen inventory), no
        other class / module defines the name as anything, and no instance attribute of that name is ever stored"""
        cache = getattr(self, '_unique_methods', None)
        if cache is None:
            defs: Dict[str, List[Any]] = {}
            stored = set()
            for m in self.modules.values():
                for fname in m.functions:
                    defs.setdefault(fname, []).append(None)
                for c in m.classes.values():
                    for n_ in list(c.methods) + list(c.attrs) + list(c.setters):
                        defs.setdefault(n_, []).append(c.methods.get(n_))
                for n_ in ast.walk(m.tree):
                    if isinstance(n_, ast.Attribute) and isinstance(n_.ctx, (ast.Store, ast.Del)):
                        stored.add(n_.attr)
            cache = {}
            # names that objects from outside the package answer to as well (files, sockets, queues, threads, containers, pydicom
            # data sets): a call of one of these on an unknown receiver is not known to be the package's method
            import io as _io, socket as _socket, threading as _thr
            foreign = set(dir(_io.BytesIO)) | set(dir(_socket.socket)) | set(dir(_thr.Thread)) | set(dir(dict)) | set(dir(list)) \
                | set(dir(set)) | set(dir(str)) | set(dir(bytes)) | {'put', 'get', 'task_done', 'acquire', 'release', 'wait', 'notify',
                                                                       'set', 'is_set', 'save_as', 'shutdown', 'server_close'}
            for n_, lst in defs.items():
                if len(lst) == 1 and lst[0] is not None and n_ not in stored and lst[0].kind == 'method' and self.is_helper(lst[0]) \
                        and n_ not in foreign:
                    cache[n_] = lst[0]
            self._unique_methods = cache
        return cache.get(name)

    LOG_METHODS = ('debug', 'info', 'warning', 'warn', 'error', 'exception', 'critical', 'log', 'fatal')

    def is_logging_call(self, call: ast.AST, m: 'Module') -> bool:
        """a call that only reports: ``logging.<level>(...)``, ``warnings.warn(...)``, ``print(...)`` or ``<logger>.<level>(...)``
        where <logger> is a module-level name bound to ``logging.getLogger(...)`` (under whatever alias logging was imported),
        or is named like a logger"""
        if not isinstance(call, ast.Call):
            return False
        fn = call.func
        if isinstance(fn, ast.Name):
            return fn.id == 'print'
        if not isinstance(fn, ast.Attribute):
            return False
        root = fn.value
        while isinstance(root, ast.Attribute):
            root = root.value
        if not isinstance(root, ast.Name):
            # logging.getLogger(__name__).debug(...)
            return isinstance(fn.value, ast.Call) and ast.unparse(fn.value.func).endswith('getLogger') and fn.attr in self.LOG_METHODS
        name = root.id
        imp = m.imports.get(name)
        if isinstance(imp, ExtRef) and imp.path in ('logging', 'warnings'):
            return True
        if fn.attr in self.LOG_METHODS and isinstance(fn.value, ast.Name):
            for v in m.assigns.get(name, []):
                if isinstance(v, ast.Call) and ast.unparse(v.func).endswith('getLogger'):
                    return True
            import re as _re
            if _re.match(r'(?i)^_*(log|logger|logging|warnings)\w*$', name):
                return True
        return False

    def table_writers(self, module: str, name: str) -> List[str]:
        """functions anywhere in the package that re-bind or mutate the module-level table ``module.name`` after import
        (assignment / deletion of entries, update / pop / clear / setdefault, ``global name`` re-binding)"""
        cache = self.__dict__.setdefault('_table_writers_cache', {})
        if (module, name) in cache:
            return list(cache[(module, name)])
        out: List[str] = []
        cache[(module, name)] = out
        muts = ('update', 'pop', 'popitem', 'clear', 'setdefault', 'append', 'extend', 'insert', 'remove', '__setitem__', '__delitem__')
        for f in self.all_functions():
            local = {a.arg for a in f.node.args.args} | {n.id for n in ast.walk(f.node) if isinstance(n, ast.Name) and isinstance(n.ctx, ast.Store)}
            globals_ = {g for n in ast.walk(f.node) if isinstance(n, ast.Global) for g in n.names}

            def is_table(e) -> bool:
                if isinstance(e, ast.Name) and e.id == name and (e.id not in local or e.id in globals_):
                    try:
                        r = self.resolve_name(e.id, f.module)
                    except NotConst:
                        return False
                    return isinstance(r, tuple) and r[0] == 'assign' and r[1].name == module
                if isinstance(e, ast.Attribute) and e.attr == name:
                    try:
                        r = self.resolve_expr(e, f.module)
                    except NotConst:
                        return False
                    except Exception:
                        return False
                    return isinstance(r, tuple) and r[0] == 'assign' and r[1].name == module
                return False
            for n in ast.walk(f.node):
                hit = None
                if isinstance(n, (ast.Assign, ast.AugAssign, ast.Delete)):
                    tgts = n.targets if isinstance(n, (ast.Assign, ast.Delete)) else [n.target]
                    for t in tgts:
                        if isinstance(t, ast.Subscript) and is_table(t.value):
                            hit = ast.unparse(t)
                        elif isinstance(t, ast.Name) and t.id == name and t.id in globals_ and f.module.name == module:
                            hit = 'global %s' % name
                        elif isinstance(t, ast.Attribute) and is_table(t):
                            hit = ast.unparse(t)
                elif isinstance(n, ast.Call) and isinstance(n.func, ast.Attribute) and n.func.attr in muts and is_table(n.func.value):
                    hit = ast.unparse(n.func)
                if hit:
                    out.append('%s: %s (line %d)' % (f.key, hit, getattr(n, 'lineno', 0)))
        return out

    def is_value_class(self, c: 'ClassInfo') -> bool:
        """a plain record type (typing.NamedTuple / dataclass without behaviour of its own): an instance is fully described by
        its constructor call, exactly like a ``collections.namedtuple`` instance, so analyses keep the call text"""
        if any(b.split('.')[-1] == 'NamedTuple' for b in c.all_ext_bases()):
            return True
        decos = [ast.unparse(d) for d in c.node.decorator_list]
        if any(d.split('(')[0].split('.')[-1] == 'dataclass' for d in decos):
            own = {k: v for k, v in c.methods.items() if not getattr(v.node, '_dataclass_synth', False)}
            if not own:
                return True
            # a frozen dataclass whose methods only read it (``__iter__`` for unpacking, ``__str__``, derived properties): still
            # fully described by its constructor call
            frozen = any('frozen=True' in d.replace(' ', '') for d in decos)
            hooks = {'__init__', '__post_init__', '__new__', '__setattr__', '__getattr__', '__getattribute__', '__eq__', '__hash__'}
            writes = any(isinstance(n, ast.Attribute) and isinstance(n.ctx, (ast.Store, ast.Del)) and isinstance(n.value, ast.Name)
                         and n.value.id == 'self' for m_ in own.values() for n in ast.walk(m_.node))
            if frozen and not (hooks & set(own)) and not writes and not c.setters:
                return True
        return False

    _PURE_BUILTINS = ('str', 'int', 'repr', 'len', 'getattr', 'isinstance', 'hasattr', 'format', 'bool', 'tuple', 'hex', 'type', 'sorted',
                      'min', 'max', 'abs', 'ord', 'chr', 'float', 'bytes', 'list', 'dict', 'set', 'frozenset', 'any', 'all', 'sum', 'zip',
                      'enumerate', 'range', 'iter', 'next', 'id', 'callable')
    _PURE_METHODS = ('get', 'format', 'join', 'keys', 'values', 'items', 'startswith', 'endswith', 'strip', 'lstrip', 'rstrip', 'upper',
                     'lower', 'title', 'split', 'replace', 'encode', 'decode', 'count', 'index', 'find', 'copy', 'hex')

    def is_pure_function(self, fi: 'FuncInfo', _depth: int = 0) -> bool:
        """a function that only computes a value from its arguments and from module / class constants: it binds nothing but its own
        locals, has no yield / global / nonlocal, and calls only builtins and methods that do not change anything, or other such
        functions of its module (``_display_name(table, value)`` used for a log text)"""
        cache = self.__dict__.setdefault('_pure_cache', {})
        if fi.key in cache:
            return cache[fi.key]
        cache[fi.key] = False
        if _depth > 3:
            return False
        ok = True
        for n in ast.walk(fi.node):
            if isinstance(n, (ast.Yield, ast.YieldFrom, ast.Global, ast.Nonlocal, ast.Await, ast.Raise, ast.Delete, ast.With)):
                ok = False
            elif isinstance(n, (ast.Attribute, ast.Subscript)) and isinstance(n.ctx, (ast.Store, ast.Del)):
                ok = False
            elif isinstance(n, ast.Call):
                fn = n.func
                if isinstance(fn, ast.Name):
                    if fn.id in self._PURE_BUILTINS and fn.id not in fi.module.functions:
                        continue
                    g = fi.module.functions.get(fn.id)
                    if g is not None and g.key != fi.key and self.is_pure_function(g, _depth + 1):
                        continue
                    ok = False
                elif isinstance(fn, ast.Attribute) and fn.attr in self._PURE_METHODS:
                    continue
                else:
                    ok = False
            if not ok:
                break
        cache[fi.key] = ok
        return ok

    def cached_value_factory(self, fi: 'FuncInfo') -> bool:
        """``@functools.lru_cache`` (or ``cache``) on a function whose body is ``return Class(<its parameters>)`` of a class whose
        instances are never written after construction: whether a result is shared or built anew cannot be observed, the
        decorator is transparent"""
        decos = [ast.unparse(d).split('(')[0].split('.')[-1] for d in fi.node.decorator_list]
        if not decos or any(d not in ('lru_cache', 'cache') for d in decos):
            return False
        body = body_without_docstring(fi.node)
        if len(body) != 1 or not isinstance(body[0], ast.Return) or not isinstance(body[0].value, ast.Call):
            return False
        call = body[0].value
        try:
            r = self.resolve_expr(call.func, fi.module)
        except Exception:
            return False
        if not isinstance(r, ClassRef):
            return False
        params = set(fi.params)
        if not all(isinstance(a, (ast.Name, ast.Constant)) and (isinstance(a, ast.Constant) or a.id in params) for a in call.args) \
                or call.keywords:
            return False
        return self.effectively_immutable(self.cls(r.module, r.name))

    def effectively_immutable(self, c: 'ClassInfo') -> bool:
        """instances of the class are never written after construction anywhere in the package: every attribute its constructor
        sets is stored only inside ``__init__`` methods, and it defines no method that stores to ``self``"""
        cache = self.__dict__.setdefault('_immut_cache', {})
        if c.key in cache:
            return cache[c.key]
        stores: Dict[str, Set[str]] = self.__dict__.get('_attr_store_sites')
        if stores is None:
            stores = {}
            for f in self.all_functions():
                for n in ast.walk(f.node):
                    if isinstance(n, ast.Attribute) and isinstance(n.ctx, (ast.Store, ast.Del)):
                        stores.setdefault(n.attr, set()).add(f.name)
            self.__dict__['_attr_store_sites'] = stores
        ok = True
        attrs = set()
        for k in c.mro():
            init = k.methods.get('__init__')
            if init is not None:
                for n in ast.walk(init.node):
                    if isinstance(n, ast.Attribute) and isinstance(n.ctx, ast.Store) and isinstance(n.value, ast.Name) \
                            and init.params and n.value.id == init.params[0]:
                        attrs.add(n.attr)
            for nm, fn in k.methods.items():
                if nm == '__init__':
                    continue
                for n in ast.walk(fn.node):
                    if isinstance(n, ast.Attribute) and isinstance(n.ctx, (ast.Store, ast.Del)) and isinstance(n.value, ast.Name) \
                            and fn.params and n.value.id == fn.params[0]:
                        ok = False
            if k.setters:
                ok = False
        for a in attrs:
            if not stores.get(a, set()) <= {'__init__'}:
                ok = False
        # ... and what the constructor stores is itself a value: a parameter, a constant, a conversion of these, an object of a
        # class of the same kind -- not a new container / buffer / lock that lives in the attribute and is written through it
        cache[c.key] = False        # (recursion guard)
        for k in c.mro():
            init = k.methods.get('__init__')
            if init is None:
                continue
            for n in ast.walk(init.node):
                if isinstance(n, ast.Assign) and any(isinstance(t, ast.Attribute) and isinstance(t.value, ast.Name)
                                                     and init.params and t.value.id == init.params[0] for t in n.targets):
                    for y in ast.walk(n.value):
                        if isinstance(y, (ast.List, ast.Dict, ast.Set, ast.ListComp, ast.DictComp, ast.SetComp)):
                            ok = False
                        if isinstance(y, ast.Call):
                            fn_ = ast.unparse(y.func)
                            last = fn_.split('.')[-1]
                            if last in ('UID', 'int', 'str', 'bytes', 'tuple', 'frozenset', 'bool', 'float', 'len', 'encode', 'decode',
                                        'strip', 'rstrip', 'lstrip', 'sum', 'min', 'max'):
                                continue
                            try:
                                r = self.resolve_expr(y.func, k.module) if not isinstance(y.func, ast.Name) else self.resolve_name(y.func.id, k.module)
                            except Exception:
                                r = None
                            if isinstance(r, ClassRef) and self.effectively_immutable(self.cls(r.module, r.name)):
                                continue
                            ok = False
        if any(b.split('.')[-1] in ('local', 'Thread', 'Lock') for b in c.all_ext_bases()):
            ok = False
        cache[c.key] = ok and bool(attrs)
        return cache[c.key]

    def is_helper_class(self, c: 'ClassInfo') -> bool:
        """a class that did not exist when the rule instances were confirmed (oracles/inventory.py)"""
        from .oracles.inventory import CLASSES
        return c.key not in CLASSES and c.module.name in self.modules

    def helper_closure(self, fi: FuncInfo) -> List[FuncInfo]:
        """``fi`` and the helpers (see is_helper) it reaches through ``self.m()`` / ``cls.m()`` calls, calls of module
        functions, and functions named in class-level tables of its class -- the code a rule about ``fi`` has to look at
        when statements were moved out of it."""
        out: List[FuncInfo] = [fi]
        seen = {fi.key}
        work = [fi]
        inlined_into: Dict[int, List[str]] = {}
        for rec in getattr(self, 'normalized_helpers', []):
            if len(rec) >= 3:
                inlined_into.setdefault(rec[2], []).append(rec[1])
        while work:
            f = work.pop()
            cands: List[FuncInfo] = []
            # helpers whose body normalisation already moved into f: their definitions belong to f as well
            for hk in inlined_into.get(id(f.node), []):
                try:
                    cands.append(self.func(*hk.split(':', 1)))
                except AnalysisError:
                    pass
            for n in ast.walk(f.node):
                if isinstance(n, ast.Call):
                    fn = n.func
                    if isinstance(fn, ast.Attribute) and isinstance(fn.value, ast.Name) and fn.value.id in ('self', 'cls') and f.cls:
                        m = f.cls.find_method(fn.attr)
                        if m is not None:
                            cands.append(m)
                    elif isinstance(fn, ast.Name) and fn.id in f.module.functions:
                        cands.append(f.module.functions[fn.id])
                if isinstance(n, ast.Attribute) and isinstance(n.value, ast.Name) and n.value.id in ('self', 'cls') and f.cls \
                        and isinstance(n.ctx, ast.Load):
                    # a method taken as a value (``handler = self._on_x`` ... ``handler(..)``) is reached as well
                    mv = f.cls.find_method(n.attr)
                    if mv is not None and mv.kind in ('method', 'staticmethod', 'classmethod'):
                        cands.append(mv)
                if isinstance(n, ast.Attribute) and isinstance(n.value, ast.Name) and n.value.id in ('self', 'cls') and f.cls:
                    hit = f.cls.find_attr(n.attr)
                    if hit is not None and isinstance(hit[1], ast.Dict):
                        for v in hit[1].values:
                            if isinstance(v, ast.Name) and hit[0].find_method(v.id) is not None:
                                cands.append(hit[0].find_method(v.id))
            for m in cands:
                if m.key not in seen and self.is_helper(m):
                    seen.add(m.key)
                    out.append(m)
                    work.append(m)
        return out

    def module_const(self, module: str, name: str) -> Any:
        m = self.module(module)
        return self.fold(ast.Name(id=name, ctx=ast.Load()), m)

    def all_classes(self) -> List[ClassInfo]:
        out = []
        for m in self.modules.values():
            out.extend(m.classes.values())
        return out

    def all_functions(self) -> List[FuncInfo]:
        out: List[FuncInfo] = []

        def add(f):
            out.append(f)
            for n in f.nested.values():
                add(n)
        for m in self.modules.values():
            self.consulted[m.relpath] = m.sha256
            for f in m.functions.values():
                add(f)
            for c in m.classes.values():
                for f in list(c.methods.values()) + list(c.setters.values()):
                    add(f)
        return out

    def subclasses(self, c: ClassInfo) -> List[ClassInfo]:
        return [x for x in self.all_classes() if x.is_subclass_of(c)]

    # ---------------------------------------------------------------- names
    def resolve_name(self, name: str, m: Module) -> Any:
        """Resolve a module-level name to ClassRef / FuncRef / ModRef / ExtRef /
        ('assign', Module, name)."""
        if name in m.classes:
            return ClassRef(m.name, name)
        if name in m.functions:
            return FuncRef(m.name, name)
        if name in m.assigns:
            return ('assign', m, name)
        if name in m.imports:
            imp = m.imports[name]
            if isinstance(imp, tuple):
                _, mod, attr = imp
                if mod in self.modules:
                    return self.resolve_name(attr, self.modules[mod])
                raise NotConst(name)
            if isinstance(imp, ModRef) and imp.name not in self.modules:
                raise NotConst(name)
            return imp
        for star in m.star_imports:
            if star in self.modules:
                sm = self.modules[star]
                if name in sm.classes or name in sm.functions or name in sm.assigns:
                    return self.resolve_name(name, sm)
        raise NotConst(name)

    def resolve_expr(self, e: ast.expr, m: Module, cls: Optional[ClassInfo] = None) -> Any:
        """Resolve Name / dotted Attribute to a reference (no value folding)."""
        if isinstance(e, ast.Name):
            return self.resolve_name(e.id, m)
        if isinstance(e, ast.Attribute):
            base = self.resolve_expr(e.value, m, cls)
            if isinstance(base, ModRef):
                return self.resolve_name(e.attr, self.module(base.name))
            if isinstance(base, ExtRef):
                return ExtRef(base.path + '.' + e.attr)
            if isinstance(base, ClassRef):
                c = self.cls(base.module, base.name)
                hit = c.find_attr(e.attr)
                if hit:
                    return ('classattr', hit[0], e.attr)
                f = c.find_method(e.attr)
                if f:
                    return FuncRef(f.module.name, f.qualname)
            raise NotConst(ast.unparse(e))
        raise NotConst(ast.unparse(e))

    # ---------------------------------------------------------------- folding
    def fold(self, e: ast.expr, m: Module, cls: Optional[ClassInfo] = None,
             env: Optional[Dict[str, Any]] = None, _depth: int = 0) -> Any:
        if _depth > 40:
            raise NotConst('depth')
        d = _depth + 1
        if isinstance(e, ast.Constant):
            return e.value
        if isinstance(e, ast.Tuple):
            return tuple(self.fold(x, m, cls, env, d) for x in e.elts)
        if isinstance(e, ast.List):
            return [self.fold(x, m, cls, env, d) for x in e.elts]
        if isinstance(e, ast.Set):
            return frozenset(self.fold(x, m, cls, env, d) for x in e.elts)
        if isinstance(e, ast.Dict):
            out = {}
            for k, v in zip(e.keys, e.values):
                if k is None:
                    raise NotConst('dict unpack')
                out[self.fold(k, m, cls, env, d)] = self.fold(v, m, cls, env, d)
            return out
        if isinstance(e, ast.Name):
            if env and e.id in env:
                return env[e.id]
            if cls is not None:
                hit = cls.find_attr(e.id)
                if hit and e.id not in m.assigns:
                    pass  # class-body names are not visible in methods
            r = self.resolve_name(e.id, m)
            return self._deref(r, d)
        if isinstance(e, ast.Attribute):
            if isinstance(e.value, ast.Name) and e.value.id in ('self', 'cls') and cls is not None:
                hit = cls.find_attr(e.attr)
                if hit:
                    try:
                        return self.fold(hit[1], hit[0].module, hit[0], None, d)
                    except NotConst:
                        v = self._peval_class_attr(hit[0], e.attr)
                        if v is _NOVALUE:
                            raise
                        return v
                if cls.find_method(e.attr):
                    return BoundMethod(e.attr)
                raise NotConst(ast.unparse(e))
            try:
                r = self.resolve_expr(e, m, cls)
            except NotConst:
                # attribute of a folded value (``X.size`` on a Struct)
                base = self.fold(e.value, m, cls, env, d)
                if isinstance(base, StructVal) and e.attr == 'size':
                    return base.size
                raise
            return self._deref(r, d)
        if isinstance(e, ast.UnaryOp):
            v = self.fold(e.operand, m, cls, env, d)
            if isinstance(e.op, ast.USub):
                return -v
            if isinstance(e.op, ast.Not):
                return not v
            if isinstance(e.op, ast.Invert):
                return ~v
            raise NotConst('unary')
        if isinstance(e, ast.BinOp):
            a = self.fold(e.left, m, cls, env, d)
            b = self.fold(e.right, m, cls, env, d)
            try:
                if isinstance(e.op, ast.Add):
                    return a + b
                if isinstance(e.op, ast.Sub):
                    return a - b
                if isinstance(e.op, ast.Mult):
                    return a * b
                if isinstance(e.op, ast.BitOr):
                    return a | b
                if isinstance(e.op, ast.BitAnd):
                    return a & b
                if isinstance(e.op, ast.LShift):
                    return a << b
                if isinstance(e.op, ast.FloorDiv):
                    return a // b
                if isinstance(e.op, ast.Mod) and isinstance(a, int):
                    return a % b
            except Exception:
                raise NotConst('binop')
            raise NotConst('binop')
        if isinstance(e, ast.BoolOp):
            # ``a or b`` / ``a and b`` over constants (truthiness of 0, '' and None decides, as at run time)
            r = None
            for x in e.values:
                r = self.fold(x, m, cls, env, d)
                if isinstance(r, (ClassRef, FuncRef, ModRef, ExtRef, BoundMethod, StructVal)):
                    truth = True
                else:
                    truth = bool(r)
                if isinstance(e.op, ast.Or) and truth:
                    return r
                if isinstance(e.op, ast.And) and not truth:
                    return r
            return r
        if isinstance(e, ast.IfExp):
            c0 = self.fold(e.test, m, cls, env, d)
            return self.fold(e.body if c0 else e.orelse, m, cls, env, d)
        if isinstance(e, ast.Compare) and len(e.ops) == 1:
            a, b = self.fold(e.left, m, cls, env, d), self.fold(e.comparators[0], m, cls, env, d)
            op = e.ops[0]
            try:
                if isinstance(op, ast.Eq):
                    return a == b
                if isinstance(op, ast.NotEq):
                    return a != b
                if isinstance(op, ast.Is):
                    return a is b or (a is None and b is None)
                if isinstance(op, ast.IsNot):
                    return not (a is b or (a is None and b is None))
                if isinstance(op, ast.Lt):
                    return a < b
                if isinstance(op, ast.LtE):
                    return a <= b
                if isinstance(op, ast.Gt):
                    return a > b
                if isinstance(op, ast.GtE):
                    return a >= b
                if isinstance(op, ast.In):
                    return a in b
                if isinstance(op, ast.NotIn):
                    return a not in b
            except TypeError:
                raise NotConst('compare')
            raise NotConst('compare')
        if isinstance(e, ast.Call):
            fn = None
            try:
                fn = self.resolve_expr(e.func, m, cls)
            except NotConst:
                if isinstance(e.func, ast.Name) and e.func.id in ('frozenset', 'set', 'tuple', 'list', 'int', 'str', 'len'):
                    args = [self.fold(a, m, cls, env, d) for a in e.args]
                    return {'frozenset': frozenset, 'set': frozenset, 'tuple': tuple,
                            'list': list, 'int': int, 'str': str, 'len': len}[e.func.id](*args)
                raise
            if isinstance(fn, ExtRef):
                if fn.path == 'struct.Struct' and len(e.args) == 1:
                    return StructVal(self.fold(e.args[0], m, cls, env, d))
                if fn.path in ('pydicom.uid.UID', 'pydicom.uid.uid.UID') or fn.path.endswith('uid.UID'):
                    return self.fold(e.args[0], m, cls, env, d)
                if fn.path == 'struct.calcsize':
                    return _struct.calcsize(self.fold(e.args[0], m, cls, env, d))
            raise NotConst('call ' + ast.unparse(e.func))
        if isinstance(e, ast.Subscript):
            base = self.fold(e.value, m, cls, env, d)
            idx = self.fold(e.slice, m, cls, env, d) if not isinstance(e.slice, ast.Slice) else None
            if idx is None:
                lo = self.fold(e.slice.lower, m, cls, env, d) if e.slice.lower else None
                hi = self.fold(e.slice.upper, m, cls, env, d) if e.slice.upper else None
                return base[lo:hi]
            try:
                return base[idx]
            except Exception:
                raise NotConst('subscript')
        if isinstance(e, ast.JoinedStr):
            raise NotConst('fstring')
        raise NotConst(type(e).__name__)

    def _deref(self, r: Any, d: int) -> Any:
        if isinstance(r, tuple) and r and r[0] == 'assign':
            _, mod, name = r
            self.consulted[mod.relpath] = mod.sha256
            try:
                return self.fold(mod.assigns[name][-1], mod, None, None, d)
            except NotConst:
                # a computed table (comprehension, dict(...), update of generated rows): propagate constants through its
                # initialiser (peval.py); anything that is not fully constant stays NotConst
                v = self._peval_module_value(mod, name)
                if v is _NOVALUE:
                    raise
                return v
        if isinstance(r, tuple) and r and r[0] == 'classattr':
            _, c, attr = r
            self.consulted[c.module.relpath] = c.module.sha256
            try:
                return self.fold(c.attrs[attr], c.module, c, None, d)
            except NotConst:
                v = self._peval_class_attr(c, attr)
                if v is _NOVALUE:
                    raise
                return v
        return r

    def _peval_class_attr(self, c: 'ClassInfo', name: str):
        """a class-level constant computed by package code (``fmt = _layout(*fields)``): constants propagated through it"""
        return self._peval_module_value(None, name, cls=c)

    def _peval_module_value(self, mod: Optional[Module], name: str, cls: Optional['ClassInfo'] = None):
        from .peval import CannotEval, PEval, Raised, UNKNOWN, Tagged
        if getattr(self, '_peval_busy', False):
            return _NOVALUE
        self._peval_busy = True
        try:
            try:
                v = PEval(self).class_attr(cls, name) if cls is not None else PEval(self).module_value(mod, name)
            except (CannotEval, Raised, AnalysisError, RecursionError, KeyError):
                return _NOVALUE
        finally:
            self._peval_busy = False

        def plain(x, depth=0):
            if depth > 6:
                raise ValueError
            if x is UNKNOWN:
                raise ValueError
            if isinstance(x, Tagged):
                return int(x)
            if isinstance(x, (int, str, bytes, float, bool)) or x is None or isinstance(x, (ClassRef, FuncRef, StructVal, ExtRef, ModRef)):
                return x
            if isinstance(x, tuple):
                return tuple(plain(y, depth + 1) for y in x)
            if isinstance(x, list):
                return [plain(y, depth + 1) for y in x]
            if isinstance(x, (set, frozenset)):
                return frozenset(plain(y, depth + 1) for y in x)
            if isinstance(x, dict):
                return {plain(k, depth + 1): plain(val, depth + 1) for k, val in x.items()}
            raise ValueError
        try:
            return plain(v)
        except ValueError:
            return _NOVALUE

    def try_fold(self, e, m, cls=None, env=None, default=None):
        try:
            return self.fold(e, m, cls, env)
        except NotConst:
            return default

    def class_of_ref(self, r: Any) -> Optional[ClassInfo]:
        if isinstance(r, ClassRef):
            return self.cls(r.module, r.name)
        return None


_NOVALUE = object()


def _direct_defs(node) -> List[ast.FunctionDef]:
    """Function definitions nested directly (not inside another def) in node."""
    out = []

    def walk(n):
        for ch in ast.iter_child_nodes(n):
            if isinstance(ch, (ast.FunctionDef, ast.AsyncFunctionDef)):
                out.append(ch)
            elif isinstance(ch, (ast.ClassDef, ast.Lambda)):
                continue
            else:
                walk(ch)
    walk(node)
    return out


def norm(e: ast.AST) -> str:
    """Normalised source text of a node (no positions, canonical spacing)."""
    return ast.unparse(e)


def body_without_docstring(node) -> List[ast.stmt]:
    body = list(node.body)
    if body and isinstance(body[0], ast.Expr) and isinstance(body[0].value, ast.Constant) \
            and isinstance(body[0].value.value, str):
        return body[1:]
    return body


def is_docstring_stmt(st) -> bool:
    return isinstance(st, ast.Expr) and isinstance(st.value, ast.Constant) and isinstance(st.value.value, str)
