"""C12 -- no byte sequence from the peer can crash or hang the provider.

Decided: interprocedural may-raise analysis of the provider loop under a frozen model of
library exceptions; shape of the invalid-PDU path; last-resort handler; no unguarded
blocking call.  Not decided: completeness of the library exception model for arbitrary
bytes (it is printed; a catch-all handler makes it irrelevant)."""
from __future__ import annotations

import ast

from ..flow import Flow
from ..fsm_model import FsmModel, cell_context, summarize_outcome
from ..oracles import ps3_8
from ..provider_model import (ProviderModel, PRODUCERS, action_raise_sets, blocking_problems,
                              cond_says_socket_present, make_raises, parse_cond, pdu_decode_raise_set)
from ..srcmodel import AnalysisError, norm
from ..sym import empty_state
from .c04 import cell_key


def escape_analysis(repo, model, pm, generic_action_exc=False):
    """-> (finals of run, producer raise sets, per-cell action raise sets, decode set)"""
    decode_set = pdu_decode_raise_set(repo)
    cell_raises = action_raise_sets(model)
    action_set = set()
    for d in cell_raises.values():
        action_set |= set(d)
    # unguarded table lookup -> KeyError
    from .c04 import LookupClient
    from ..srcmodel import body_without_docstring
    af = model.sm.find_method('action')
    lc = LookupClient(model, af)
    lo = Flow(lc).run(body_without_docstring(af.node), [lc.init()])
    for s, e in lo.exc:
        if s[0] == 'miss':
            action_set.add(e)
            cell_raises.setdefault(('undefined',), {}).setdefault(e, set()).add('action')
    base = make_raises(repo, decode_set)
    prod_sets = {}
    prod_origin = {}
    for name in PRODUCERS:
        c = pm.client(name, raises_of=base)
        o = c.run(empty_state())
        prod_sets[name] = {e for _, e in o.exc}
        prod_origin[name] = o
    aset = set(action_set)
    if generic_action_exc:
        aset.add('Exception')
    r = make_raises(repo, decode_set, aset, prod_sets)
    c = pm.client('run', inline_helpers=False, raises_of=r)
    o = c.run(empty_state())
    return c, o, prod_sets, cell_raises, decode_set


def run(repo, rep):
    from ..pitfalls import memo_rule as _memo_rule
    _memo_rule(repo, rep, 'C12', 'C12.Z1')
    from ..pitfalls import log_rule as _log_rule
    _log_rule(repo, rep, 'C12', 'C12.Z2')
    from ..api_pitfalls import truth_rule as _truth_rule
    _truth_rule(repo, rep, 'C12', 'C12.Z4')
    from ..api_pitfalls import attribute_rule as _attribute_rule
    _attribute_rule(repo, rep, 'C12', 'C12.Z5')
    from ..api_pitfalls import pairing_rule as _pairing_rule
    _pairing_rule(repo, rep, 'C12', 'C12.Z6')
    model = FsmModel(repo)
    pm = ProviderModel(repo, model)
    rep.rule('C12.E6', 'no function of the provider / state machine / codecs reads an ``except ... as name`` variable after its handler '
             'ended, and none iterates a sequence it changes in the loop body (both turn a handled input into an unhandled error)', 1)
    from ..pitfalls import mutated_while_iterated, unbound_after_handler
    p6 = []
    n6 = 0
    for f6 in repo.all_functions():
        if f6.module.name in ('dulprovider', 'fsm', 'pdu', 'userdataitems', 'dimsemessages', 'dsutils'):
            n6 += 1
            p6 += unbound_after_handler(f6)
            if f6.module.name in ('dulprovider', 'fsm'):
                p6 += mutated_while_iterated(f6)
    rep.check(not p6, 'C12.E6', 'provider:python-pitfalls', 'pynetdicom2/dulprovider.py', '%d functions' % n6, '; '.join(p6))
    rep.trust('frozen may-raise model of library calls (pnd_static/excmodel.py): Struct.unpack -> struct.error, '
              'bytes.decode -> UnicodeDecodeError, keyed table subscripts -> KeyError, six.indexbytes -> IndexError, '
              'dsutils/pydicom and application callbacks -> Exception, socket send/recv/connect -> OSError, '
              'queue get -> queue.Empty, next() -> StopIteration/Exception')
    rep.trust('PS3.8 Table 9-10 (Evt19 row) as transcribed in pnd_static/oracles/ps3_8.py')
    rep.assume('exceptions of decoders are over-approximated by ignoring handlers inside the decoders')
    rep.rule('C12.E1', 'no exception raised by peer-driven code (decoders, actions on received PDUs, socket I/O) leaves '
             'the frame of DULServiceProvider.run', 1)
    rep.rule('C12.E2', 'a PDU of unknown type or one whose decoder raises is turned into Evt19 and nothing else; a failure '
             'while reassembling P-DATA leads to the abort action, not out of the loop', 3)
    rep.rule('C12.E3', 'in every Evt19 cell (and on exception edges of received-PDU cells) the PDU sent is a freshly '
             'built A-ABORT', 11)
    rep.rule('C12.E4', 'every path through the last-resort handler of run indicates an abort, releases the transport, '
             'sets the stopped flag and ends without re-raising', 1)
    rep.rule('C12.E5', 'every blocking call reachable from the loop is bounded by a timeout', 1)
    rep.rule('C12.E7', 'in the context its cell runs in (kind of the current primitive, transport present or already released) no '
             'action raises anything but a transport error: an AttributeError / TypeError from using a released transport or '
             'an absent primitive would end the provider loop through the last-resort handler on an input a peer can produce', 1)

    c, o, prod_sets, cell_raises, decode_set = escape_analysis(repo, model, pm)
    runf = pm.method('run')
    for n in PRODUCERS + ('run', '_check_incoming_pdu', '_process_incoming', '_close'):
        rep.analysed(pm.method(n))
    for m in sorted(set(model.table.values())):
        rep.analysed(model.sm.find_method(m))

    # E1 ---------------------------------------------------------------------
    escaped = sorted({e for _, e in o.exc})
    origins = []
    for e in escaped:
        srcs = []
        for name, st in prod_sets.items():
            if e in st:
                srcs.append(name + '()')
        cells = sorted(k for k, d in cell_raises.items() if e in d)
        if cells:
            meths = sorted({m for k in cells for m in cell_raises[k][e]})
            srcs.append('action %s in %d cell(s), e.g. %s' % ('/'.join(meths), len(cells), cells[0]))
        origins.append('%s from %s' % (e, '; '.join(srcs) or 'run itself'))
    rep.check(not escaped, 'C12.E1', 'dulprovider:DULServiceProvider.run:escaping-exceptions', runf.loc(),
              'no exception leaves run (producers may raise %s, actions may raise %s; all are absorbed)'
              % (sorted(set().union(*prod_sets.values())) or 'nothing', sorted({e for d in cell_raises.values() for e in d}) or 'nothing'),
              'exceptions that leave the provider thread: ' + ' | '.join(origins))

    # E9 ---------------------------------------------------------------------
    from ..api_pitfalls import loop_progress_problems, selfcheck_loop_progress
    if not selfcheck_loop_progress():
        raise AnalysisError('C12.E9 self-check failed: the rule does not tell its positive example from its negative one')
    p8, n8 = loop_progress_problems(repo)
    rep.rule('C12.E9', 'no input makes a decoder spin: in every ``while`` loop of the peer-driven modules whose test reads locals, each '
             'path back to the test (end of body, ``continue``) has assigned one of them or called a method on it', 1)
    rep.notes['loops_with_local_tests'] = n8
    rep.check(not p8, 'C12.E9', 'package:while-loops:progress', 'pynetdicom2',
              '%d while loop(s) over locals, each path back to the test changes what it reads' % n8, '; '.join(p8))

    # E2 ---------------------------------------------------------------------
    base = make_raises(repo, decode_set)
    pc = pm.client('_process_incoming', inline_helpers=False, raises_of=base)
    po = pc.run(empty_state())
    esc = sorted({e for _, e in po.exc})
    rep.check(not esc, 'C12.E2', 'dulprovider:DULServiceProvider._process_incoming:decode-failure', pm.method('_process_incoming').loc(),
              'every exception of the type lookup and of the decoders %s is caught here' % sorted(decode_set | {'KeyError', 'IndexError'}),
              'decoding a received PDU may raise %s, which the handler around it does not catch (only %s reaches Evt19)'
              % (esc, 'KeyError' if 'KeyError' not in esc else 'nothing'))
    bad = []
    n_h = 0
    for s, how in pc.final_states(po):
        if any(cn.startswith('exc:') for cn in s.conds) and not how.startswith('raise'):
            n_h += 1
            apps = [e for e in s.trail if e.kind == 'append']
            if len(apps) != 1 or not apps[0].args[0].endswith('EVT_19'):
                bad.append('handler path appends %s' % [a.args[0] for a in apps])
            if s.ret != 'True':
                bad.append('handler path returns %s' % s.ret)
    if n_h == 0:
        bad.append('no handler path found')
    rep.check(not bad, 'C12.E2', 'dulprovider:DULServiceProvider._process_incoming:invalid-pdu-event', pm.method('_process_incoming').loc(),
              'the handler queues exactly Evt19 and reports an event (%d handler paths)' % n_h, '; '.join(sorted(set(bad))))
    for (e, s) in [(10, 6), (10, 7)]:
        d = cell_raises.get((e, s), {})
        meth = model.table.get(('EVT_%d' % e, 'STA_%d' % s))
        decode_exc = sorted(x for x in d if x not in ('OSError',))
        rep.check(not decode_exc, 'C12.E2', cell_key(e, s) + ':reassembly-failure', model.sm.find_method(meth).loc(),
                  '%s(): a failing DIMSE reassembly does not propagate out of the action' % meth,
                  '%s(): DIMSEDecoder.process may raise on malformed P-DATA (%s) and nothing in the action catches it; '
                  'the exception leaves action() instead of leading to AA-8' % (meth, ', '.join(decode_exc)))

    # E8 ---------------------------------------------------------------------
    rep.rule('C12.E8', 'the DIMSE reassembler does not absorb its own failures: every handler in DIMSEDecoder.process (helpers and '
             'context managers spliced in) that catches broadly -- bare, Exception, BaseException -- ends by raising on every path, '
             'so an undecodable P-DATA reaches the abort action of its cell (E2)', 1)
    proc = repo.func('fsm', 'DIMSEDecoder.process')
    rep.analysed(proc)
    p8 = []
    n_h8 = 0

    def always_raises(stmts) -> bool:
        for st_ in stmts:
            if isinstance(st_, ast.Raise):
                return True
            if isinstance(st_, ast.If) and st_.orelse and always_raises(st_.body) and always_raises(st_.orelse):
                return True
            if isinstance(st_, ast.Try) and st_.finalbody and always_raises(st_.finalbody):
                return True
            if isinstance(st_, ast.Try) and always_raises(st_.body) and all(always_raises(h_.body) for h_ in st_.handlers) and not st_.orelse:
                return True
            if isinstance(st_, (ast.With,)) and always_raises(st_.body):
                return True
        return False
    for hf in repo.helper_closure(proc):
        for n_ in ast.walk(hf.node):
            if isinstance(n_, ast.Try):
                for h_ in n_.handlers:
                    tnames = []
                    if h_.type is not None:
                        tnames = [norm(x).split('.')[-1] for x in (h_.type.elts if isinstance(h_.type, ast.Tuple) else [h_.type])]
                    if h_.type is None or any(t in ('Exception', 'BaseException') for t in tnames):
                        n_h8 += 1
                        if not always_raises(h_.body):
                            p8.append('%s line %d: ``except %s`` has a path that ends without raising: a PDV that cannot be decoded is '
                                      'dropped silently, the association goes on with a half-filled decoder and no A-ABORT is sent'
                                      % (hf.qualname, h_.lineno, norm(h_.type) if h_.type is not None else ''))
    rep.check(not p8, 'C12.E8', 'fsm:DIMSEDecoder.process:failures-propagate', proc.loc(),
              '%d broad handler(s), each re-raises on every path' % n_h8, '; '.join(p8))

    # E7 ---------------------------------------------------------------------
    p7 = []
    for (e, s), d in sorted(cell_raises.items()):
        for exc, meths in sorted(d.items()):
            if (e, s) in ((10, 6), (10, 7)) and exc == 'Exception':
                continue      # reassembly failures are E2's
            if exc in ('OSError',):
                # a failing transmission / connect is absorbed by run (the association is gone).  A cell that transmits
                # nothing only indicates, closes or moves on: nothing there may fail on a connection the peer has reset
                acts_ = list(ps3_8.ACTIONS[ps3_8.TABLE[(e, s)]])
                if any(a_['send'] or a_['connect'] for a_ in acts_):
                    continue
                if (e, s) in ((10, 6), (10, 7)) and all(oc_.exc_path for oc_ in model.summarize(model.table[('EVT_%d' % e, 'STA_%d' % s)], *cell_context(e, s))
                                                        if oc_.kind == 'raise' and oc_.exc == 'OSError'):
                    continue      # the failing transmission is the A-ABORT of the reassembly-failure branch (AA-8)
                p7.append('%s: %s() raises OSError although its cell transmits nothing (closing a connection the peer has reset must not '
                          'fail): the loop ends through the last-resort handler with a second indication'
                          % (cell_key(e, s), '/'.join(sorted(meths))))
                continue
            p7.append('%s: %s() raises %s (transport %s)' % (cell_key(e, s), '/'.join(sorted(meths)), exc, cell_context(e, s)[1]))
    rep.check(not p7, 'C12.E7', 'fsm:StateMachine.transition_table:action-errors', model.sm.loc(),
              'no action raises a non-transport error in its cell context (%d cells)' % len(cell_raises), '; '.join(p7[:6]))

    # E3 ---------------------------------------------------------------------
    for (e, s), action_id in sorted(ps3_8.TABLE.items()):
        if e != 19:
            continue
        meth = model.table.get(('EVT_%d' % e, 'STA_%d' % s))
        if meth is None:
            continue
        prim, sock = cell_context(e, s)
        problems = []
        for oc in model.summarize(meth, prim, sock):
            if oc.kind == 'raise' and oc.exc == 'AttributeError':
                problems.append('%s() dereferences the stale/None primitive (AttributeError)' % meth)
            if oc.kind != 'return':
                continue
            for eff in oc.effects:
                if eff[0] == 'send':
                    names = {k[0] for k in eff[1]}
                    if names != {'AAbortPDU'}:
                        problems.append('%s() sends the current primitive (%s), not a freshly built A-ABORT'
                                        % (meth, '/'.join(sorted('stale or None' if n in ('TOP', 'None') else n for n in names))))
        rep.check(not problems, 'C12.E3', cell_key(e, s) + ':abort-well-formed', model.sm.find_method(meth).loc(),
                  '%s(): what is sent on an invalid PDU is an A-ABORT built by the action' % meth, '; '.join(sorted(set(problems))))

    # E4 ---------------------------------------------------------------------
    c2, o2, _, _, _ = escape_analysis(repo, model, pm, generic_action_exc=True)
    problems = []
    n_paths = 0
    for s, how in c2.final_states(o2):
        in_handler = [cn for cn in s.conds if cn.startswith('exc:Exception') or cn.startswith('exc:BaseException')]
        if not in_handler:
            continue
        n_paths += 1
        kinds = [e.kind for e in s.trail]
        if 'indicate' not in kinds:
            problems.append('handler path does not indicate an abort to the user')
        if 'killed_set' not in kinds:
            problems.append('handler path does not set the stopped flag')
        closed = 'close' in kinds or any(not cond_says_socket_present(cn) and _says_socket_absent(cn) for cn in s.conds)
        if not closed:
            problems.append('handler path leaves the transport open')
        if how.startswith('raise'):
            problems.append('handler re-raises (%s): the provider thread dies with the error' % how[6:])
    if n_paths == 0:
        problems.append('run has no last-resort handler for unexpected exceptions')
    rep.check(not problems, 'C12.E4', 'dulprovider:DULServiceProvider.run:last-resort', runf.loc(),
              'last-resort handler: abort indicated, transport released, flag set, no re-raise (%d paths)' % n_paths,
              '; '.join(sorted(set(problems))))

    # E5 ---------------------------------------------------------------------
    finals, blog = [], []
    for name in PRODUCERS:
        f_, l_ = pm.paths_and_log(name, raises_of=make_raises(repo, decode_set))
        finals.extend(f_)
        blog.extend(l_)
    probs = blocking_problems(finals, blog)
    rep.check(not probs, 'C12.E5', 'dulprovider:DULServiceProvider:blocking-calls', pm.cls.loc(),
              'every recv/select/queue get on %d producer paths is bounded' % len(finals), '; '.join(probs))


def _says_socket_absent(c: str) -> bool:
    pol, e = parse_cond(c)
    if e is None:
        return False
    t = ast.unparse(e)
    if t == 'self.dul_socket':
        return pol is False
    if t in ('self.dul_socket is None', 'self.dul_socket == None'):
        return pol is True
    if t in ('self.dul_socket is not None', 'self.dul_socket != None'):
        return pol is False
    return False
