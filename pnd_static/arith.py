"""Evaluation of an extracted integer *term* (not of program code): the width / length expressions the
rules extract are closed arithmetic over one or two symbols; evaluating the term at chosen points of the
symbol's domain (boundary values of the protocol field) decides inequalities the affine normal form cannot
express (``or``-defaults, rounding, min/max).  Only the operators below are understood; anything else raises
CannotEvaluate and the rule reports that it cannot decide."""
from __future__ import annotations

import ast
from typing import Any, Dict


class CannotEvaluate(Exception):
    pass


def eval_term(e: ast.AST, env: Dict[str, Any]) -> Any:
    if isinstance(e, ast.Expression):
        return eval_term(e.body, env)
    if isinstance(e, ast.Constant) and isinstance(e.value, (int, bool)) or (isinstance(e, ast.Constant) and e.value is None):
        return e.value
    if isinstance(e, (ast.Name, ast.Attribute)):
        k = ast.unparse(e)
        if k in env:
            return env[k]
        raise CannotEvaluate(k)
    if isinstance(e, ast.BinOp):
        a, b = eval_term(e.left, env), eval_term(e.right, env)
        if not isinstance(a, int) or not isinstance(b, int):
            raise CannotEvaluate('non-integer operand')
        try:
            if isinstance(e.op, ast.Add):
                return a + b
            if isinstance(e.op, ast.Sub):
                return a - b
            if isinstance(e.op, ast.Mult):
                return a * b
            if isinstance(e.op, ast.FloorDiv):
                return a // b
            if isinstance(e.op, ast.Mod):
                return a % b
            if isinstance(e.op, ast.BitAnd):
                return a & b
            if isinstance(e.op, ast.BitOr):
                return a | b
            if isinstance(e.op, ast.RShift):
                return a >> b
            if isinstance(e.op, ast.LShift) and b < 64:
                return a << b
        except ZeroDivisionError:
            raise CannotEvaluate('division by zero')
        raise CannotEvaluate(type(e.op).__name__)
    if isinstance(e, ast.UnaryOp):
        v = eval_term(e.operand, env)
        if isinstance(e.op, ast.USub):
            return -v
        if isinstance(e.op, ast.Not):
            return not v
        if isinstance(e.op, ast.Invert):
            return ~v
        raise CannotEvaluate('unary')
    if isinstance(e, ast.BoolOp):
        r = None
        for v in e.values:
            r = eval_term(v, env)
            if isinstance(e.op, ast.Or) and r:
                return r
            if isinstance(e.op, ast.And) and not r:
                return r
        return r
    if isinstance(e, ast.IfExp):
        return eval_term(e.body, env) if eval_term(e.test, env) else eval_term(e.orelse, env)
    if isinstance(e, ast.Compare) and len(e.ops) == 1:
        a, b = eval_term(e.left, env), eval_term(e.comparators[0], env)
        op = e.ops[0]
        try:
            if isinstance(op, ast.Eq):
                return a == b
            if isinstance(op, ast.NotEq):
                return a != b
            if isinstance(op, ast.Lt):
                return a < b
            if isinstance(op, ast.LtE):
                return a <= b
            if isinstance(op, ast.Gt):
                return a > b
            if isinstance(op, ast.GtE):
                return a >= b
            if isinstance(op, ast.Is):
                return a is b
            if isinstance(op, ast.IsNot):
                return a is not b
        except TypeError:
            raise CannotEvaluate('comparison')
    if isinstance(e, ast.Call) and isinstance(e.func, ast.Name) and e.func.id in ('min', 'max', 'int', 'abs') and not e.keywords:
        args = [eval_term(a, env) for a in e.args]
        if any(not isinstance(a, int) for a in args) or not args:
            raise CannotEvaluate('call arguments')
        return {'min': min, 'max': max, 'int': lambda x: int(x), 'abs': abs}[e.func.id](*args)
    raise CannotEvaluate(type(e).__name__)
