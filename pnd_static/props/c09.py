"""C09 -- the acceptor answers every proposed presentation context correctly.

Decided by path analysis of AssociationAcceptor.accept and _loop (per-iteration outcomes of the
context loop, provenance of every field of the reply).  Value semantics of ``in`` on
frozenset/dict are trusted."""
from __future__ import annotations

import ast

from ..fsm_model import exc_hierarchy
from ..srcmodel import AnalysisError, norm
from ..sym import SymClient, empty_state, expand_items as _expand_items, is_token, loop_body_outcomes, token_class



class _UidCanon(ast.NodeTransformer):
    """Two forms that say the same about a UID a peer proposed: ``x.rstrip(P)`` / ``x.strip(P)`` with P made of characters a UID
    cannot contain (NUL, blanks: padding some peers leave) is x for every legal name; membership in ``tuple(S)`` / ``list(S)`` /
    ``set(S)`` / ``frozenset(S)`` is membership in S."""
    def visit_Call(self, node):
        self.generic_visit(node)
        if isinstance(node.func, ast.Attribute) and node.func.attr in ('rstrip', 'strip') and not node.keywords:
            if not node.args or (len(node.args) == 1 and isinstance(node.args[0], ast.Constant) and isinstance(node.args[0].value, str)
                                 and not set(node.args[0].value) & set('0123456789.')):
                return node.func.value
        return node

    def visit_Compare(self, node):
        self.generic_visit(node)
        if len(node.ops) == 1 and isinstance(node.ops[0], (ast.In, ast.NotIn)):
            c = node.comparators[0]
            if isinstance(c, ast.Call) and isinstance(c.func, ast.Name) and c.func.id in ('tuple', 'list', 'set', 'frozenset') \
                    and len(c.args) == 1 and not c.keywords:
                node.comparators = [c.args[0]]
        return node


def expand_items(term: str) -> str:
    t = _expand_items(term)
    try:
        e = ast.parse(t, mode='eval').body
    except SyntaxError:
        return t
    e2 = _UidCanon().visit(e)
    ast.fix_missing_locations(e2)
    return ast.unparse(e2)


def ev(call, callee, client, state):
    last = callee.rsplit('.', 1)[-1]
    if last in ('append', 'insert', 'extend') and not callee.startswith('self.'):
        return 'list.' + last
    if last in ('PresentationContextItemAC', 'AAssociateAcPDU', 'TransferSyntaxSubItem', 'PContextDef'):
        return None
    if callee.endswith('dul.send'):
        return 'dul.send'
    if last in ('receive',):
        return 'receive'
    return None


def stores(t):
    return t.startswith('self.sop_classes_as_scp[') or t.startswith('self.accepted_contexts[') or \
        t in ('self.dul.accepted_contexts', 'self.max_pdu_length', 'self.remote_ae', 'self.sop_classes_as_scp[]', 'self.accepted_contexts[]')


def _stale_in_iteration(lp, fi):
    """reads, inside the body of the loop ``lp``, of a local the loop assigns that is not definitely assigned earlier in the same iteration"""
    def stores(n_):
        return {x.id for x in ast.walk(n_) if isinstance(x, ast.Name) and isinstance(x.ctx, ast.Store)}
    assigned_in_loop = set()
    accum = {}
    for st in ast.walk(lp):
        if st is lp:
            continue
        if isinstance(st, ast.AugAssign) and isinstance(st.target, ast.Name):
            accum.setdefault(st.target.id, []).append(True)
            assigned_in_loop.add(st.target.id)
        elif isinstance(st, ast.Assign):
            for t_ in st.targets:
                for x in ast.walk(t_):
                    if isinstance(x, ast.Name) and isinstance(x.ctx, ast.Store):
                        reads_self = any(isinstance(y, ast.Name) and y.id == x.id and isinstance(y.ctx, ast.Load) for y in ast.walk(st.value))
                        accum.setdefault(x.id, []).append(reads_self)
                        assigned_in_loop.add(x.id)
        elif isinstance(st, (ast.For, ast.comprehension)):
            assigned_in_loop |= stores(st.target)
        elif isinstance(st, ast.With):
            for it in st.items:
                if it.optional_vars is not None:
                    assigned_in_loop |= stores(it.optional_vars)
    accumulators = {k for k, v in accum.items() if v and all(v)}
    watch = assigned_in_loop - accumulators
    out = []

    def reads(n_, defined):
        comp_bound = set()
        for x in ast.walk(n_):
            if isinstance(x, ast.comprehension):
                comp_bound |= stores(x.target)
        for x in ast.walk(n_):
            if isinstance(x, ast.Name) and isinstance(x.ctx, ast.Load) and x.id in watch and x.id not in defined and x.id not in comp_bound:
                out.append('%s: %s is read at line %d with the value an earlier context left in it (it is assigned in the loop at line %d, '
                           'but not on every path of this iteration before this point)' % (fi.loc(x), x.id, x.lineno, lp.lineno))

    def walk(stmts, defined, breaks):
        cur = set(defined)
        for st in stmts:
            if isinstance(st, (ast.Continue, ast.Return, ast.Raise)):
                if isinstance(st, (ast.Return, ast.Raise)) and getattr(st, 'value', None) is not None:
                    reads(st.value, cur)
                return None
            if isinstance(st, ast.Break):
                breaks.append(set(cur))
                return None
            if isinstance(st, ast.If):
                reads(st.test, cur)
                a = walk(st.body, cur, breaks)
                b = walk(st.orelse, cur, breaks) if st.orelse else set(cur)
                if a is None and b is None:
                    return None
                cur = a if b is None else b if a is None else (a & b)
            elif isinstance(st, (ast.For, ast.While)):
                if isinstance(st, ast.For):
                    reads(st.iter, cur)
                    inner_def = cur | stores(st.target)
                else:
                    reads(st.test, cur)
                    inner_def = set(cur)
                inner_breaks = []
                walk(st.body, inner_def, inner_breaks)
                after_else = walk(st.orelse, cur, breaks) if st.orelse else set(cur)
                outs = ([after_else] if after_else is not None else []) + inner_breaks
                if not outs:
                    return None
                cur = set.intersection(*outs)
            elif isinstance(st, ast.Try):
                a = walk(st.body, cur, breaks)
                outs = [] if a is None else [a]
                for h in st.handlers:
                    b = walk(h.body, cur, breaks)
                    if b is not None:
                        outs.append(b)
                if st.orelse and a is not None:
                    o_ = walk(st.orelse, a, breaks)
                    outs = [x for x in outs if x is not a] + ([o_] if o_ is not None else [])
                if not outs:
                    return None
                cur = set.intersection(*outs)
                if st.finalbody:
                    f_ = walk(st.finalbody, cur, breaks)
                    if f_ is None:
                        return None
                    cur = f_
            elif isinstance(st, ast.With):
                for it in st.items:
                    reads(it.context_expr, cur)
                    if it.optional_vars is not None:
                        cur |= stores(it.optional_vars)
                a = walk(st.body, cur, breaks)
                if a is None:
                    return None
                cur = a
            elif isinstance(st, (ast.FunctionDef, ast.ClassDef)):
                continue
            else:
                if isinstance(st, ast.Assign):
                    reads(st.value, cur)
                    for t_ in st.targets:
                        for x in ast.walk(t_):
                            if not (isinstance(x, ast.Name) and isinstance(x.ctx, ast.Store)):
                                if isinstance(x, ast.Name):
                                    reads(x, cur)
                    cur |= stores(st)
                elif isinstance(st, ast.AugAssign):
                    reads(st.value, cur)
                    if isinstance(st.target, ast.Name) and st.target.id in watch and st.target.id not in cur:
                        reads(ast.Name(id=st.target.id, ctx=ast.Load(), lineno=st.lineno, col_offset=0), cur)
                    cur |= stores(st)
                else:
                    reads(st, cur)
                    cur |= stores(st)
        return cur
    walk(lp.body, stores(lp.target), [])
    return out


def run(repo, rep):
    from ..pitfalls import memo_rule as _memo_rule
    _memo_rule(repo, rep, 'C09', 'C09.Z1')
    from ..pitfalls import log_rule as _log_rule
    _log_rule(repo, rep, 'C09', 'C09.Z2')
    from ..api_pitfalls import truth_rule as _truth_rule
    _truth_rule(repo, rep, 'C09', 'C09.Z4')
    from ..api_pitfalls import attribute_rule as _attribute_rule
    _attribute_rule(repo, rep, 'C09', 'C09.Z5')
    hier = exc_hierarchy(repo)
    acc = repo.cls('asceprovider', 'AssociationAcceptor')
    f = acc.find_method('accept')
    if f is None:
        raise AnalysisError('AssociationAcceptor.accept not found')
    rep.analysed(f)
    rq = f.params[1]
    rep.trust('CPython semantics of ``in`` on frozenset / dict, list.append ordering')
    rep.rule('C09.N1', 'every path through one iteration of the context loop appends exactly one PresentationContextItemAC '
             'carrying that context\'s id; answers are appended in proposal order', 1)
    rep.rule('C09.N2', 'result 0 is answered iff the abstract syntax is served as SCP and a transfer syntax proposed for this '
             'context is supported; every other path answers a non-zero result', 1)
    rep.rule('C09.N3', 'the transfer syntax returned is the first proposed-and-supported one of this context', 1)
    rep.rule('C09.N4', 'routing tables are written exactly on the accept path, keyed by the context id, with the returned '
             'syntax; the provider gets the same table; _loop serves a message only on a context it accepted', 2)
    rep.rule('C09.N6', 'the routing / accepted-context tables are per-association objects: what one association accepted is '
             'never served on another', 1)
    rep.rule('C09.N7', 'the set of supported transfer syntaxes the acceptor consults is exactly the configured one: the default '
             'set is substituted only when none was configured (None), never for an empty configuration', 1)
    rep.rule('C09.N8', 'the proposed contexts are walked once: a one-shot iterator over them (a generator expression) is not handed to '
             'anything else before the answering loop -- a consumer that runs first (formatting for a log record, a count) leaves the '
             'loop nothing to answer', 1)
    from ..pitfalls import oneshot_reuse
    p8 = []
    for hf in repo.helper_closure(f):
        p8 += oneshot_reuse(repo, hf)
    rep.check(not p8, 'C09.N8', 'asceprovider:AssociationAcceptor.accept:single-pass', f.loc(), 'no one-shot iterator over the proposal is '
              'consumed twice', '; '.join(sorted(set(p8))))
    rep.rule('C09.N9', 'each proposed context is answered on its own (PS3.8 7.1.1.13: the contexts are negotiated independently): in the '
             'loop that builds the PresentationContextItemAC items, a local that the loop assigns is read only after it was assigned in '
             'the same iteration -- otherwise the answer to one context depends on the context before it (accumulators, whose every '
             'assignment reads the name itself, are what they are meant to be)', 1)
    p9 = []
    n9 = 0
    # (positive example, checked on every run: the rule must see a choice that survives into the next iteration, and must accept
    # the same loop with the choice reset at the top)
    class _Loc:
        def loc(self, n_=None):
            return 'example:%d' % getattr(n_, 'lineno', 0)
    _bad = ast.parse('chosen = None\nfor item in items:\n    for ts in item.ts:\n        if ts in ok:\n            chosen = ts\n            break\n'
                     '    if chosen is None:\n        continue\n    use(chosen)\n').body[1]
    _good = ast.parse('for item in items:\n    chosen = None\n    for ts in item.ts:\n        if ts in ok:\n            chosen = ts\n            break\n'
                      '    if chosen is None:\n        continue\n    use(chosen)\n').body[0]
    if not _stale_in_iteration(_bad, _Loc()) or _stale_in_iteration(_good, _Loc()):
        raise AnalysisError('C09.N9 self-check failed: the rule does not tell its positive example from its negative one')
    for hf in repo.helper_closure(f):
        for lp in [x for x in ast.walk(hf.node) if isinstance(x, ast.For)]:
            if not any(isinstance(c_, ast.Call) and norm(c_.func).endswith('PresentationContextItemAC') for c_ in ast.walk(lp)):
                continue
            if any(lp is not o_ and isinstance(o_, ast.For) and lp in list(ast.walk(o_)) and
                   any(isinstance(c_, ast.Call) and norm(c_.func).endswith('PresentationContextItemAC') for c_ in ast.walk(o_))
                   for o_ in ast.walk(hf.node)):
                continue       # an inner loop of the context loop
            n9 += 1
            p9 += _stale_in_iteration(lp, hf)
    rep.check(not p9, 'C09.N9', 'asceprovider:AssociationAcceptor.accept:fresh-per-context', f.loc(),
              '%d context loop(s): every local the loop assigns is assigned in the iteration that reads it' % n9, '; '.join(sorted(set(p9))))
    rep.rule('C09.N5', 'the reply repeats the request\'s AE titles (same-named fields) and application context item; user '
             'information is appended last', 1)

    c = SymClient(repo, f, event_of=ev, hierarchy=hier, store_event=stores)
    fin = c.final_states(c.run(empty_state()))
    loops = [n for n in ast.walk(f.node) if isinstance(n, ast.For)]
    outer = None
    for lp in loops:
        if not any(lp is not o and lp in list(ast.walk(o)) for o in loops):
            outer = lp
    if outer is None:
        raise AnalysisError('%s: no context loop in accept()' % f.loc())
    o = loop_body_outcomes(c, outer)
    outcomes = [(s, 'fall') for s in o.fall] + [(s, 'continue') for s in o.cont] + [(s, 'break') for s in o.brk] + \
        [(s, 'return') for s, _ in o.ret]
    if not outcomes:
        raise AnalysisError('context loop has no outcome')
    item = 'ITEM(%s.variable_items[1:-1])' % rq
    pcid = item + '.context_id'
    p1, p2, p3, p4 = [], [], [], []
    n_accept = 0
    # Two-phase acceptors: the loop over the proposal only fills tables, the answers are made afterwards from those tables and
    # added to the reply in one go (``rsp.extend(answers[i.context_id] for i in request items)``).  The per-iteration rules below
    # do not read that shape.  What can still be decided is the order: the sequence the emitting expression runs over is the
    # request's item list itself -- running over sorted(..) / a dict / a set answers in another order than proposed.
    loop_answers = any(is_token(e.args[0]) and token_class(e.args[0]) == 'PresentationContextItemAC'
                       for s, _h in outcomes for e in s.trail if e.kind == 'list.append' and e.args)
    bulk = [e for e, _s in c.log if e.kind == 'list.extend' and e.args]
    if not loop_answers and bulk:
        order_probs = []
        for e in bulk:
            try:
                ge = ast.parse(expand_items(e.args[0]), mode='eval').body
            except SyntaxError:
                ge = None
            if not isinstance(ge, (ast.GeneratorExp, ast.ListComp)):
                continue
            src = ast.unparse(ge.generators[0].iter)
            if src == '%s.variable_items[1:-1]' % rq:
                continue
            if src.startswith(('sorted(', 'set(', 'frozenset(', 'reversed(')) or 'variable_items' not in src:
                order_probs.append('the answers are added to the reply by running over %s, not over the request\'s item list: contexts are '
                                   'answered in that order (sorted ids, or dictionary order), not in the order proposed' % src[:80])
        rep.check(not order_probs, 'C09.N1', 'asceprovider:AssociationAcceptor.accept:answer-order', f.loc(outer),
                  'the reply is filled by running over the request\'s items', '; '.join(sorted(set(order_probs))))
        rep.undecided('C09.N1', '%s: the answers are not made in the loop over the proposed contexts but afterwards, from tables that loop '
                      'fills (two-phase acceptor): which context gets which answer is not decided for this shape' % f.loc(outer))
        return
    for s, how in outcomes:
        apps = [e for e in s.trail if e.kind == 'list.append']
        acs = []
        for e in apps:
            tok = e.args[0] if e.args else ''
            if is_token(tok) and token_class(tok) == 'PresentationContextItemAC':
                acs.append((e, e.fields(tok)))
        if any(e.kind in ('list.insert', 'list.extend') for e in s.trail):
            p1.append('answers are not appended in order (insert/extend used)')
        if how in ('break', 'return'):
            p1.append('an iteration of the context loop ends the whole loop (%s): later contexts stay unanswered' % how)
        if len(acs) != 1:
            p1.append('%d answers on one path through an iteration [%s]' % (len(acs), ' '.join(expand_items(x) for x in s.conds)))
            continue
        e, flds = acs[0]
        cid = expand_items(flds.get('@context_id', ''))
        if cid != pcid:
            p1.append('answer carries context id %s, not the proposed context\'s id' % cid)
        res = flds.get('@result_reason')
        conds = [expand_items(x) for x in e.conds]
        sop = item + '.abs_sub_item.name'
        served = ('-%s not in self.ae.supported_scp' % sop) in conds or ('+%s in self.ae.supported_scp' % sop) in conds
        unserved = ('+%s not in self.ae.supported_scp' % sop) in conds or ('-%s in self.ae.supported_scp' % sop) in conds
        ts_item = 'ITEM(%s.ts_sub_items)' % item
        ts_ok = ('+%s.name in self.ae.supported_ts' % ts_item) in conds
        st_scp = [x for x in s.trail if x.kind == 'store' and x.callee.startswith('self.sop_classes_as_scp')]
        st_acc = [x for x in s.trail if x.kind == 'store' and x.callee.startswith('self.accepted_contexts')]
        if res == '0':
            n_accept += 1
            if not (served and ts_ok):
                hint = ''
                if any('.startswith(' in cn and 'supported_ts' in cn for cn in conds) or any('.endswith(' in cn and 'supported_ts' in cn for cn in conds):
                    hint = ' -- the syntax is tested by prefix / suffix, not for equality: transfer syntax UIDs are prefixes of one another ' \
                           '(1.2.840.10008.1.2 of 1.2.840.10008.1.2.1, .1.2.2, .1.2.4.50 ...)'
                p2.append('result 0 answered without both tests (served as SCP: %s, a proposed syntax supported: %s)%s' % (served, ts_ok, hint))
            tsf = expand_items(flds.get('@ts_sub_item', ''))
            if tsf != ts_item and is_token(tsf) and token_class(tsf) == 'TransferSyntaxSubItem':
                # a sub-item built anew from the name of the proposed one that was tested carries the same transfer syntax
                nm = expand_items(dict((f_, v_) for t_, f_, v_ in s.heap if t_ == tsf).get('@name', ''))
                if nm in ('%s.name' % ts_item, 'uid.UID(%s.name)' % ts_item):
                    tsf = ts_item
            if tsf != ts_item:
                p3.append('accepted context returns %s, not the proposed transfer syntax that was tested' % tsf)
            # first such: the inner loop is left right after accepting
            if not st_scp or not st_acc:
                p4.append('accept path does not record the context in both routing tables')
            for x in st_scp + st_acc:
                k = expand_items(x.args[0])
                if k != pcid:
                    p4.append('%s keyed by %s, not the context id' % (x.callee, k))
                v = expand_items(x.args[1])
                if ('uid.UID(%s.name)' % ts_item) not in v and ts_item not in v:
                    p4.append('%s records %s, which does not contain the returned transfer syntax' % (x.callee, v))
                if sop not in v:
                    p4.append('%s records %s without the proposed abstract syntax' % (x.callee, v))
        else:
            if served and ts_ok:
                p2.append('a servable context is answered with result %s' % res)
            if res in (None, '0') or not (res or '').isdigit():
                p2.append('rejection result %s is not a non-zero constant' % res)
            if st_scp or st_acc:
                p4.append('routing table written on a rejecting path (result %s)' % res)
    # the accept path leaves the inner loop immediately (first match)
    inner = [lp for lp in loops if lp is not outer]
    if inner:
        io = loop_body_outcomes(c, inner[0])
        for s in io.fall | io.cont:
            if any(e.kind == 'list.append' for e in s.trail):
                p3.append('after accepting a transfer syntax the loop goes on to the next one: several answers / last match wins')
        if not io.brk:
            p3.append('the transfer syntax loop is never left on a match')
    if n_accept == 0:
        p2.append('no path accepts a context')
    kf = 'asceprovider:AssociationAcceptor.accept:'
    rep.check(not p1, 'C09.N1', kf + 'one-answer-per-context', f.loc(outer), 'exactly one answer with the context id on each of %d paths' % len(outcomes), '; '.join(sorted(set(p1))))
    rep.check(not p2, 'C09.N2', kf + 'accept-iff', f.loc(outer), 'result 0 iff served as SCP and a proposed syntax is supported', '; '.join(sorted(set(p2))))
    rep.check(not p3, 'C09.N3', kf + 'returned-syntax', f.loc(outer), 'first proposed and supported transfer syntax is returned', '; '.join(sorted(set(p3))))
    rep.check(not p4, 'C09.N4', kf + 'routing-equals-answer', f.loc(outer), 'routing tables written on the accept path only, by context id, with the returned syntax', '; '.join(sorted(set(p4))))

    # after the loop: provider table, reply header
    p4b, p5 = [], []
    for s, how in fin:
        if how.startswith('raise'):
            continue
        st = [x for x in s.trail if x.kind == 'store' and x.callee == 'self.dul.accepted_contexts']
        if not st or st[-1].args[0] != 'self.accepted_contexts':
            p4b.append('the provider (file reception) does not receive the accepted-context table')
        sends = [e for e in s.trail if e.kind == 'dul.send']
        if len(sends) != 1:
            p5.append('%d PDUs sent by accept()' % len(sends))
            continue
        tok = sends[0].args[0]
        if not (is_token(tok) and token_class(tok) == 'AAssociateAcPDU'):
            p5.append('accept() sends %s, not an A-ASSOCIATE-AC' % tok)
            continue
        flds = sends[0].fields(tok)
        if flds.get('@called_ae_title') != rq + '.called_ae_title':
            p5.append('called AE title of the reply is %s' % flds.get('@called_ae_title'))
        if flds.get('@calling_ae_title') != rq + '.calling_ae_title':
            p5.append('calling AE title of the reply is %s' % flds.get('@calling_ae_title'))
        items = flds.get('@variable_items', '')
        try:
            le = ast.parse(items, mode='eval').body
        except SyntaxError:
            le = None
        if not isinstance(le, ast.List) or not le.elts:
            p5.append('reply items are %s, not a list starting with the request\'s application context item' % items[:120])
            continue
        if ast.unparse(le.elts[0]) != '%s.variable_items[0]' % rq:
            p5.append('reply items start with %s, not the request\'s application context item' % ast.unparse(le.elts[0]))
        if ast.unparse(le.elts[-1]) != '%s.variable_items[-1]' % rq:
            p5.append('the user information item of the request is not appended last (last item: %s)' % ast.unparse(le.elts[-1]))
        for mid in le.elts[1:-1]:
            txt = ast.unparse(mid)
            if 'NEW_PresentationContextItemAC_' not in txt:
                p5.append('between application context and user information the reply carries %s' % txt[:80])
    rep.check(not p5, 'C09.N5', kf + 'reply-header', f.loc(), 'AE titles and application context repeated; user information last', '; '.join(sorted(set(p5))))
    # _loop
    lf = acc.find_method('_loop')
    rep.analysed(lf)

    def lev(call, callee, client, state):
        if callee == 'self.receive':
            return 'receive'
        if callee.startswith('self.ae.supported_scp['):
            return 'service'
        return None

    def lraise(node, client, state):
        out = []
        for n in ast.walk(node):
            if isinstance(n, ast.Subscript) and isinstance(n.ctx, ast.Load) and norm(n.value) in ('self.sop_classes_as_scp', 'self.ae.supported_scp'):
                out.append('KeyError')
        return out
    lc = SymClient(repo, lf, event_of=lev, hierarchy=hier, raises_of=lraise)
    lc.run(empty_state())
    svc = [(e, s) for e, s in lc.log if e.kind == 'service']
    pl = []
    if not svc:
        pl.append('no service invocation found in _loop')
    for e, s in svc:
        pc = 'self.receive()[1]'
        if len(e.args) < 3:
            pl.append('service called with %d arguments' % len(e.args))
            continue
        ctx = e.args[1]
        want = 'PContextDef(%s, self.sop_classes_as_scp[%s][1], self.sop_classes_as_scp[%s][2])' % (pc, pc, pc)
        if ctx != want:
            pl.append('service gets context %s, expected the accepted entry of the context the message arrived on (%s)' % (ctx, want))
        if e.args[2] != 'self.receive()[0]':
            pl.append('service gets message %s' % e.args[2])
        if e.args[0] != 'self':
            pl.append('service gets association %s' % e.args[0])
    # a missing entry must surface as ClassNotSupportedError, not as a service call
    body_src = norm(lf.node)
    if 'ClassNotSupportedError' not in body_src:
        pl.append('a message on a context that was not accepted is not refused with ClassNotSupportedError')
    rep.check(not pl and not p4b, 'C09.N4', 'asceprovider:AssociationAcceptor._loop:serve-accepted-only', lf.loc(),
              'messages are served only on accepted contexts, with the recorded (id, abstract syntax, transfer syntax)',
              '; '.join(sorted(set(pl + p4b))))

    # ---------------------------------------------------------------- N6: the tables belong to this association
    from .c20 import per_instance_problems
    acc_cls = repo.cls('asceprovider', 'AssociationAcceptor')
    p6 = per_instance_problems(repo, acc_cls)
    rep.check(not p6, 'C09.N6', 'asceprovider:AssociationAcceptor:tables-per-association', acc_cls.loc(),
              'routing / accepted-context tables are created per association', '; '.join(p6))

    # ---------------------------------------------------------------- N7: what "supported" means
    aeb = repo.cls('applicationentity', 'AEBase')
    ai = aeb.find_method('__init__')
    rep.analysed(ai)
    ic = SymClient(repo, ai, event_of=lambda *a: None, hierarchy=hier)
    io = ic.run(empty_state())
    p7 = []
    tsp = next((p_ for p_ in ai.params if 'ts' in p_ or 'syntax' in p_), None)
    n7 = 0
    for s_ in [x for x, _r in io.ret] + list(io.fall):
        v = s_.field('EXT:self', 'supported_ts')
        if v is None or tsp is None:
            p7.append('supported_ts is not set from a constructor parameter')
            continue
        n7 += 1
        is_none = ('+%s is None' % tsp) in s_.conds or ('-%s is not None' % tsp) in s_.conds
        not_none = ('-%s is None' % tsp) in s_.conds or ('+%s is not None' % tsp) in s_.conds
        if not_none and v not in ('frozenset(%s)' % tsp, 'set(%s)' % tsp, tsp):
            p7.append('with a configured set the acceptor consults %s' % v)
        elif is_none and tsp in v.replace('self.default_ts', ''):
            p7.append('with no configuration the acceptor consults %s' % v)
        elif not is_none and not not_none:
            p7.append('supported_ts = %s is not decided by "is None": an explicitly empty configuration is replaced by the '
                      'defaults (or a falsy one treated as absent)' % v)
    rep.check(not p7, 'C09.N7', 'applicationentity:AEBase.__init__:supported-ts', ai.loc(), 'configured set used as is (%d paths)' % n7,
              '; '.join(sorted(set(p7))))
