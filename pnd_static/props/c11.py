"""C11 -- requester: well-formed proposal, accepted contexts and service lookup agree.

Decided: odd/increasing/distinct context-id allocation (parity induction) and its bound,
provenance of every field of the A-ASSOCIATE-RQ, the single writer of the accepted-context
tables and its guard, the lookup's error conversion."""
from __future__ import annotations

import ast

from ..fsm_model import exc_hierarchy
from ..srcmodel import AnalysisError, norm
from ..sym import SymClient, empty_state, expand_items, is_token, token_class

APP_CONTEXT = '1.2.840.10008.3.1.1.1'   # PS3.7 Annex A: DICOM application context name


def _registered_key_sources(fn, table):
    """The iterables whose items become keys of ``self.<table>`` in ``fn``: through ``update({k: v for k in X})``,
    ``update(dict.fromkeys(X, v))``, ``update(dict(zip(X, ...)))``, ``update((k, v) for k in X)`` or a loop storing
    ``self.<table>[k] = v`` for k in X.  -> ([source terms], [problems with the key expression])"""
    srcs, probs = [], []
    tname = 'self.%s' % table

    def of_mapping(e):
        if isinstance(e, ast.DictComp):
            if norm(e.key) != norm(e.generators[0].target):
                probs.append('service table keyed by %s' % norm(e.key))
            return norm(e.generators[0].iter)
        if isinstance(e, ast.Call) and norm(e.func) == 'dict.fromkeys' and e.args:
            return norm(e.args[0])
        if isinstance(e, ast.Call) and norm(e.func) == 'dict' and len(e.args) == 1:
            return of_mapping(e.args[0])
        if isinstance(e, ast.Call) and norm(e.func) in ('zip', 'six.moves.zip') and e.args:
            return norm(e.args[0])
        if isinstance(e, (ast.GeneratorExp, ast.ListComp)) and isinstance(e.elt, ast.Tuple) and len(e.elt.elts) == 2:
            if norm(e.elt.elts[0]) != norm(e.generators[0].target):
                probs.append('service table keyed by %s' % norm(e.elt.elts[0]))
            return norm(e.generators[0].iter)
        if isinstance(e, ast.Name):
            # a local mapping built beforehand: by one of the forms above, or empty and filled by a loop of stores
            binds = [n for n in ast.walk(fn.node) if isinstance(n, ast.Assign) and len(n.targets) == 1 and norm(n.targets[0]) == e.id]
            if len(binds) == 1:
                v = binds[0].value
                if (isinstance(v, ast.Dict) and not v.keys) or (isinstance(v, ast.Call) and norm(v.func) == 'dict' and not v.args and not v.keywords):
                    for lp in ast.walk(fn.node):
                        if isinstance(lp, ast.For):
                            sts = [n for n in ast.walk(lp) if isinstance(n, ast.Assign) and any(
                                isinstance(t, ast.Subscript) and norm(t.value) == e.id for t in n.targets)]
                            if sts:
                                t = next(t for t in sts[0].targets if isinstance(t, ast.Subscript) and norm(t.value) == e.id)
                                if norm(t.slice) != norm(lp.target):
                                    probs.append('service table keyed by %s' % norm(t.slice))
                                return norm(lp.iter)
                    return None
                return of_mapping(v)
        return None
    for n in ast.walk(fn.node):
        if isinstance(n, ast.Call) and norm(n.func) == tname + '.update' and n.args:
            src = of_mapping(n.args[0])
            srcs.append(src if src is not None else norm(n.args[0]))
        elif isinstance(n, ast.For):
            for st in ast.walk(n):
                if isinstance(st, ast.Assign) and any(isinstance(t, ast.Subscript) and norm(t.value) == tname for t in st.targets):
                    t = next(t for t in st.targets if isinstance(t, ast.Subscript) and norm(t.value) == tname)
                    if norm(t.slice) != norm(n.target):
                        probs.append('service table keyed by %s' % norm(t.slice))
                    srcs.append(norm(n.iter))
    return srcs, probs


def run(repo, rep):
    from ..pitfalls import memo_rule as _memo_rule
    _memo_rule(repo, rep, 'C11', 'C11.Z1')
    from ..pitfalls import log_rule as _log_rule
    _log_rule(repo, rep, 'C11', 'C11.Z2')
    from ..api_pitfalls import truth_rule as _truth_rule
    _truth_rule(repo, rep, 'C11', 'C11.Z4')
    from ..api_pitfalls import attribute_rule as _attribute_rule
    _attribute_rule(repo, rep, 'C11', 'C11.Z5')
    hier = exc_hierarchy(repo)
    ae = repo.cls('applicationentity', 'AEBase')
    rq = repo.cls('asceprovider', 'AssociationRequester')
    rep.trust('PS3.8 9.3.2.2: presentation context ids are odd integers 1..255; PS3.7 Annex A application context name')
    rep.rule('C11.Q1', 'context ids: the first is 1, each further one is the previous maximum + 2, consecutive within a call '
             '(step 2) -- odd, strictly increasing, distinct', 2)
    rep.rule('C11.Q1b', 'context ids are bounded by 255 (they are packed into one byte)', 1)
    rep.rule('C11.Q5', 'add_scu / add_scp allocate a context definition for exactly the SOP classes they register', 2)
    rep.rule('C11.Q2', 'request: called = remote AE title, calling = local AE title, DICOM application context, own maximum '
             'length first in the user information, one presentation context per configured entry with its id, SOP class and '
             'transfer syntaxes', 3)
    rep.rule('C11.Q3', 'accepted-context tables are written at one site, only for result 0, keyed by the reply\'s id looked up '
             'in the proposed list, bound to the reply\'s transfer syntax', 1)
    rep.rule('C11.Q6', 'the accepted-context tables are per-association objects: contexts accepted in an earlier association '
             'are not usable in a later one', 1)
    rep.rule('C11.Q7', 'no one-shot iterator over the configured SOP classes / contexts is consumed twice on the way from the '
             'configuration to the proposal (the second consumer would see nothing and contexts would silently be dropped)', 1)
    rep.rule('C11.Q4', 'get_scu binds the stored (context id, transfer syntax) and turns a missing entry into ClassNotSupportedError', 1)

    # ---------------------------------------------------------------- Q1
    upd = ae.find_method('update_context_def_list')
    bld = ae.find_method('_build_context_def_list')
    if upd is None or bld is None:
        raise AnalysisError('context id allocation functions not found')
    rep.analysed(upd)
    rep.analysed(bld)
    probs = []
    # path-based: on every path the second argument of the _build_context_def_list call is 1 when no context
    # exists yet and max(existing ids) + 2 otherwise
    uc = SymClient(repo, upd, event_of=lambda call, callee, *_: 'build' if callee == 'self._build_context_def_list' else None,
                   hierarchy=hier, inline=repo.is_helper)
    uo = uc.run(empty_state())
    builds = [(e, s) for s, _how in uc.final_states(uo) for e in s.trail if e.kind == 'build']
    ok_start = bool(builds)
    seen_start = set()
    cases = []
    for e, _s in builds:
        st_term = e.args[1] if len(e.args) > 1 else dict(e.kwargs).get('start', '?')
        try:
            te = ast.parse(st_term, mode='eval').body
        except SyntaxError:
            te = None
        if isinstance(te, ast.IfExp):
            # the choice written as a conditional expression in the argument: one case per arm
            t_ = ast.unparse(te.test)
            neg = t_[4:] if t_.startswith('not ') else None
            cases.append((ast.unparse(te.body), tuple(e.conds) + (('-' + neg) if neg else ('+' + t_),)))
            cases.append((ast.unparse(te.orelse), tuple(e.conds) + (('+' + neg) if neg else ('-' + t_),)))
        else:
            cases.append((st_term, tuple(e.conds)))
    # by value: the start id at an empty list and at lists holding ids, for whatever expression computes it
    from ..arith import CannotEvaluate, eval_value
    D_ = 'self.context_def_list'
    by_value = True
    value_probs = []
    for sample in ({}, {1: 'a'}, {1: 'a', 3: 'b'}, {5: 'a', 9: 'b', 7: 'c'}):
        want = max(sample) + 2 if sample else 1
        got = set()
        for st_term, conds_ in cases:
            try:
                applies = True
                for cn in conds_:
                    if cn[:1] in '+-' and D_ in cn:
                        if bool(eval_value(ast.parse(cn[1:], mode='eval').body, {D_: sample})) != (cn[0] == '+'):
                            applies = False
                            break
                if applies:
                    got.add(eval_value(ast.parse(st_term, mode='eval').body, {D_: sample}))
            except (CannotEvaluate, SyntaxError):
                by_value = False
                break
            except Exception as exc:
                got.add('raises %s' % type(exc).__name__)
        if not by_value:
            break
        if got != {want}:
            value_probs.append('with ids %s in the list the next batch starts at %s, expected %d'
                               % (sorted(sample) or 'none', ' / '.join(str(x) for x in sorted(got, key=str)) or 'nothing', want))
    if by_value and cases:
        if value_probs:
            probs.append('; '.join(value_probs))
        cases = []
        ok_start = True
        seen_start = {'(by value)', '(by value) '}
    for st_term, conds_ in cases:
        e = type('E', (), {'conds': conds_})
        seen_start.add(st_term)
        has = '+self.context_def_list' in e.conds or '-not self.context_def_list' in e.conds \
            or '+len(self.context_def_list) > 0' in e.conds or '-len(self.context_def_list) == 0' in e.conds
        empty = '-self.context_def_list' in e.conds or '+not self.context_def_list' in e.conds \
            or '-len(self.context_def_list) > 0' in e.conds or '+len(self.context_def_list) == 0' in e.conds
        if has and st_term in ('max(self.context_def_list.keys()) + 2', 'max(self.context_def_list) + 2',
                               '2 + max(self.context_def_list.keys())', '2 + max(self.context_def_list)'):
            continue
        if empty and st_term == '1':
            continue
        ok_start = False
    if len(seen_start) < 2:
        ok_start = False
    if not ok_start:
        probs.append('first id of a batch is %s, expected "1 if no context yet else max(existing ids) + 2"'
                     % (' / '.join(sorted(seen_start)) or 'not found'))
    call = [n for n in ast.walk(upd.node) if isinstance(n, ast.Call) and norm(n.func) == 'self._build_context_def_list']
    if not call:
        probs.append('the batch is not built by _build_context_def_list')
    upd_call = [n for n in ast.walk(upd.node) if isinstance(n, ast.Call) and norm(n.func) == 'self.context_def_list.update']
    if not upd_call:
        probs.append('new contexts are not merged into context_def_list')
    rep.check(not probs, 'C11.Q1', 'applicationentity:AEBase.update_context_def_list:start-id', upd.loc(),
              'start = 1 or max(existing) + 2', '; '.join(probs))
    probs = []
    sp = bld.params[2]
    counts = [n for n in ast.walk(bld.node) if isinstance(n, ast.Call) and norm(n.func) in ('count', 'itertools.count')]
    ranges = [n for n in ast.walk(bld.node) if isinstance(n, ast.Call) and norm(n.func) == 'range' and len(n.args) == 3]
    if not counts and ranges and [norm(ranges[0].args[0]), norm(ranges[0].args[2])] == [sp, '2']:
        probs.append('ids come from %s zipped with the SOP classes: zip stops at the shorter sequence, so SOP classes beyond the '
                     'last id of the range are silently dropped from the proposal (and an exclusive stop of 255 never allocates '
                     'id 255)' % norm(ranges[0]))
    elif not counts or [norm(a) for a in counts[0].args] != [sp, '2']:
        probs.append('ids are generated by %s, expected count(start, 2)' % (norm(counts[0]) if counts else 'nothing'))
    dc = [n for n in ast.walk(bld.node) if isinstance(n, ast.DictComp)]
    if not dc:
        # the same comprehension written as a loop: ``d = {}; for a, b in zip(..): d[K] = V; return d``
        for lp_ in [n for n in ast.walk(bld.node) if isinstance(n, ast.For)]:
            if isinstance(lp_.iter, ast.Call) and norm(lp_.iter.func) in ('zip', 'six.moves.zip') and isinstance(lp_.target, ast.Tuple) \
                    and not lp_.orelse and not any(isinstance(n, (ast.Break, ast.Continue, ast.Return)) for n in ast.walk(lp_)):
                stores_ = [n for n in ast.walk(lp_) if isinstance(n, ast.Assign) and len(n.targets) == 1
                           and isinstance(n.targets[0], ast.Subscript)]
                # locals of the body that only name parts of the entry are substituted (``sop = uid.UID(sop_class)``)
                loc_ = {norm(n.targets[0]): n.value for n in lp_.body if isinstance(n, ast.Assign) and len(n.targets) == 1
                        and isinstance(n.targets[0], ast.Name)}
                rets_ = [n for n in ast.walk(bld.node) if isinstance(n, ast.Return) and n.value is not None]
                if len(stores_) == 1 and rets_ and all(norm(r_.value) == norm(stores_[0].targets[0].value) for r_ in rets_):
                    from ..layout import _subst_names
                    val_ = _subst_names(stores_[0].value, loc_) if loc_ else stores_[0].value
                    key_ = _subst_names(stores_[0].targets[0].slice, loc_) if loc_ else stores_[0].targets[0].slice
                    dc = [ast.DictComp(key=key_, value=val_,
                                       generators=[ast.comprehension(target=lp_.target, iter=lp_.iter, ifs=[], is_async=0)])]
    loops_b = [n for n in ast.walk(bld.node) if isinstance(n, ast.For) and norm(n.iter) == bld.params[1]]
    if not dc and loops_b:
        # the same batch built by an explicit loop: one id drawn from the generator per SOP class, stored under that id
        lp_b = loops_b[0]
        nexts = [n for n in ast.walk(lp_b) if isinstance(n, ast.Call) and norm(n.func) == 'next' and len(n.args) == 1]
        gen_locals = {norm(n.targets[0]) for n in ast.walk(bld.node) if isinstance(n, ast.Assign) and isinstance(n.value, ast.Call)
                      and norm(n.value.func) in ('count', 'itertools.count')}
        if len(nexts) != 1 or not (norm(nexts[0].args[0]) in gen_locals or norm(nexts[0].args[0]).startswith('count(')):
            probs.append('an iteration of the loop does not draw exactly one id from the id generator')
        else:
            idv = None
            for n in ast.walk(lp_b):
                if isinstance(n, ast.Assign) and n.value is nexts[0] and isinstance(n.targets[0], ast.Name):
                    idv = n.targets[0].id
            stores_b = [n for n in ast.walk(lp_b) if isinstance(n, ast.Assign) and isinstance(n.targets[0], ast.Subscript)]
            if idv is None or len(stores_b) != 1:
                probs.append('the loop does not store one entry per SOP class under the id it drew')
            else:
                st_b = stores_b[0]
                if norm(st_b.targets[0].slice) != idv:
                    probs.append('batch keyed by %s, not by the id' % norm(st_b.targets[0].slice))
                v = st_b.value
                lv = norm(lp_b.target)
                if not (isinstance(v, ast.Call) and norm(v.func).endswith('PContextDef') and len(v.args) == 3 and
                        norm(v.args[0]) == idv and lv in norm(v.args[1]) and norm(v.args[2]) == 'self.supported_ts'):
                    probs.append('entry is %s, expected PContextDef(id, UID(sop_class), self.supported_ts)' % norm(v))
                rets_b = [n for n in ast.walk(bld.node) if isinstance(n, ast.Return) and n.value is not None]
                if not rets_b or any(norm(r_.value) != norm(st_b.targets[0].value) for r_ in rets_b):
                    probs.append('the batch that was filled is not what is returned')
                if any(isinstance(n, (ast.Break, ast.Continue)) for n in ast.walk(lp_b)):
                    probs.append('the loop may skip SOP classes')
    elif not dc:
        probs.append('no dict comprehension building the batch')
    else:
        d = dc[0]
        g = d.generators[0]
        if not (isinstance(g.iter, ast.Call) and norm(g.iter.func) in ('zip', 'six.moves.zip') and isinstance(g.target, ast.Tuple)):
            probs.append('SOP classes and ids are not paired by zip')
        else:
            names = [norm(x) for x in g.target.elts]
            args = [norm(a) for a in g.iter.args]
            id_pos = [i for i, a in enumerate(args) if a.startswith('count(') or a.startswith('range(')]
            if not id_pos:
                probs.append('zip does not include the id generator')
            else:
                idv = names[id_pos[0]]
                sopv = names[1 - id_pos[0]]
                if norm(d.key) != idv:
                    probs.append('batch keyed by %s, not by the id' % norm(d.key))
                v = d.value
                if not (isinstance(v, ast.Call) and norm(v.func).endswith('PContextDef') and len(v.args) == 3 and
                        norm(v.args[0]) == idv and sopv in norm(v.args[1]) and norm(v.args[2]) == 'self.supported_ts'):
                    probs.append('entry is %s, expected PContextDef(id, UID(sop_class), self.supported_ts)' % norm(v))
                if args[1 - id_pos[0]] != bld.params[1]:
                    probs.append('zip pairs %s, not the given SOP classes' % args[1 - id_pos[0]])
    rep.check(not probs, 'C11.Q1', 'applicationentity:AEBase._build_context_def_list:id-sequence', bld.loc(),
              'one entry per SOP class with ids start, start+2, ...', '; '.join(probs))
    # Q1b
    src = norm(upd.node) + norm(bld.node)
    for m in ('add_scu',):
        src += norm(ae.find_method(m).node)
    guard = any(tok in src for tok in ('255', '0xff', '0xFF', '128'))
    rep.check(guard, 'C11.Q1b', 'applicationentity:AEBase.update_context_def_list:id-bound', upd.loc(),
              'allocation refuses ids beyond 255',
              'context ids grow without bound (start + 2*k): the 129th configured SOP class gets id 257, which does not fit '
              'the one-byte field of the presentation context item (struct.error when the request is encoded)')

    # ---------------------------------------------------------------- Q5: what is registered is what gets a context
    for cname, mname, table in (('AEBase', 'add_scu', 'supported_scu'), ('AE', 'add_scp', 'supported_scp')):
        fn = repo.cls('applicationentity', cname).find_method(mname)
        if fn is None:
            raise AnalysisError('%s.%s not found' % (cname, mname))
        rep.analysed(fn)
        probs = []
        srcs, key_probs = _registered_key_sources(fn, table)
        ctx = [n for n in ast.walk(fn.node) if isinstance(n, ast.Call) and norm(n.func) == 'self.update_context_def_list']
        if not srcs or not ctx:
            probs.append('does not both register the service and allocate presentation contexts')
        else:
            probs.extend(key_probs)
            want = norm(ctx[0].args[0]) if ctx[0].args else '?'
            for src in srcs:
                if src != want:
                    probs.append('services are registered for %s but contexts are allocated for %s' % (src, want))
        rep.check(not probs, 'C11.Q5', 'applicationentity:%s.%s:registration' % (cname, mname), fn.loc(),
                  'every registered SOP class gets a presentation context definition', '; '.join(probs))

    # ---------------------------------------------------------------- Q5b: the explicit list wins over the service's own
    rep.rule('C11.Q5b', 'add_scu(service, sop_classes): a non-empty explicit list is what gets registered and proposed; the '
             'service\'s own list is the fall-back', 1)
    fn = ae.find_method('add_scu')
    if len(fn.params) < 3:
        raise AnalysisError('%s: add_scu(self, service, sop_classes) expected' % fn.loc())
    svc_p, lst_p = fn.params[1], fn.params[2]
    c5 = SymClient(repo, fn, event_of=lambda call, callee, *_: 'alloc' if callee == 'self.update_context_def_list' else None,
                   hierarchy=hier, inline=repo.is_helper)
    c5.run(empty_state())
    allocs = [(e_, s_) for e_, s_ in c5.log if e_.kind == 'alloc' and e_.args]
    if not allocs:
        raise AnalysisError('%s: add_scu does not call update_context_def_list' % fn.loc())
    p5b = []
    own = '%s.sop_classes' % svc_p
    for e_, _s in allocs:
        t = e_.args[0]
        try:
            te = ast.parse(t, mode='eval').body
        except SyntaxError:
            raise AnalysisError('%s: cannot parse %s' % (fn.loc(), t))
        while isinstance(te, ast.Call) and norm(te.func) in ('list', 'tuple') and len(te.args) == 1 and not te.keywords:
            te = te.args[0]
        verdict = None
        given = any(c_ in ('+' + lst_p, '+%s is not None' % lst_p, '-%s is None' % lst_p) for c_ in e_.conds)
        absent = any(c_ in ('-' + lst_p, '-%s is not None' % lst_p, '+%s is None' % lst_p, '+not ' + lst_p) for c_ in e_.conds)
        if isinstance(te, ast.BoolOp) and isinstance(te.op, ast.Or):
            ops = [norm(x) for x in te.values]
            while ops and ops[-1] in ('()', '[]'):
                ops.pop()
            if ops == [lst_p, own]:
                verdict = True
            elif lst_p in ops and own in ops and ops.index(own) < ops.index(lst_p):
                verdict = False
        elif isinstance(te, ast.IfExp):
            tt = norm(te.test)
            a, b = norm(te.body), norm(te.orelse)
            if (tt in (lst_p, '%s is not None' % lst_p) and (a, b) == (lst_p, own)) or \
                    (tt in ('not ' + lst_p, '%s is None' % lst_p) and (a, b) == (own, lst_p)):
                verdict = True
            elif (tt in (own,) and (a, b) == (own, lst_p)):
                verdict = False
        elif norm(te) == lst_p and given:
            verdict = True
        elif norm(te) == own and absent:
            verdict = True
        elif norm(te) == own and not absent:
            verdict = False
        if verdict is None:
            rep.undecided('C11.Q5b', '%s: contexts are allocated for %s, whose choice between the explicit list and the service\'s '
                          'own is not in a form the rule reads' % (fn.loc(), t[:140]))
            break
        if not verdict:
            p5b.append('contexts are allocated for %s: the explicit %s is used only when the service declares no classes of its own'
                       % (t, lst_p))
    else:
        rep.check(not p5b, 'C11.Q5b', 'applicationentity:AEBase.add_scu:override', fn.loc(),
                  'explicit list first, the service\'s own list as the fall-back (%d allocation site(s))' % len(allocs), '; '.join(sorted(set(p5b))))

    # ---------------------------------------------------------------- Q2c: the entity's own maximum, 0 included
    rep.rule('C11.Q2c', 'the maximum PDU length the request carries is the entity\'s configured one: the association takes it over '
             'unchanged -- chosen by ``is None`` tests, never by truth, so that a configured 0 (no limit) is announced as 0 (same '
             'analysis as C10.X9)', 1)
    from .c10 import limit_selection_problems
    lp_, nl_ = limit_selection_problems(repo, hier)
    rep.check(not lp_, 'C11.Q2c', 'asceprovider:Association.__init__:limit-selection', repo.cls('asceprovider', 'Association').loc(),
              '%d store(s) of the starting limit, none chosen by truthiness' % nl_, '; '.join(lp_))
    # ---------------------------------------------------------------- Q2
    req = rq.find_method('_request')
    rep.analysed(req)

    def ev(call, callee, client, state):
        if callee.endswith('dul.send'):
            return 'dul.send'
        if callee.endswith('dul.receive'):
            return 'dul.receive'
        return None

    def stores(t):
        return t.startswith('self.sop_classes_as_scu') or t.startswith('self.accepted_contexts') or t == 'self.dul.accepted_contexts'
    c = SymClient(repo, req, event_of=ev, hierarchy=hier, store_event=stores)
    fin = c.final_states(c.run(empty_state()))
    sends = [(e, s) for e, s in c.log if e.kind == 'dul.send']
    probs = []
    lp, rp = req.params[1], req.params[2]
    if not sends:
        probs.append('no A-ASSOCIATE-RQ is sent')
    seen_variants = 0
    # the path on which a copying loop runs zero times shows the list without its per-item part: it is an instance of
    # the general list, not another proposal
    all_items = [e_.fields(e_.args[0]).get('@variable_items', '') for e_, _s in sends if e_.args and is_token(e_.args[0])]

    def without_stars(t):
        try:
            le_ = ast.parse(t, mode='eval').body
        except SyntaxError:
            return t
        if not isinstance(le_, ast.List):
            return t
        return norm(ast.List(elts=[x for x in le_.elts if not isinstance(x, ast.Starred)], ctx=ast.Load()))
    general_items = {t for t in all_items if '*' in t}
    for e, s in sends:
        if e.args and is_token(e.args[0]):
            it0 = e.fields(e.args[0]).get('@variable_items', '')
            if it0 not in general_items and any(without_stars(g_) == it0 for g_ in general_items):
                continue
        tok = e.args[0]
        if not (is_token(tok) and token_class(tok) == 'AAssociateRqPDU'):
            probs.append('_request sends %s' % tok)
            continue
        seen_variants += 1
        fl = e.fields(tok)
        if fl.get('@called_ae_title') != "%s['aet']" % rp:
            probs.append('called AE title is %s, must be the remote entity\'s' % fl.get('@called_ae_title'))
        if fl.get('@calling_ae_title') != "%s['aet']" % lp:
            probs.append('calling AE title is %s, must be the local entity\'s' % fl.get('@calling_ae_title'))
        items = fl.get('@variable_items', '')
        try:
            ie = ast.parse(items, mode='eval').body
        except SyntaxError:
            ie = None
        ok_items = False
        # canonical sequence form (however it was put together: list(chain(...)), concatenation, append loop):
        # [application context, *build_pres_context_def_list(self.context_def_list), user information]
        if isinstance(ie, ast.List) and len(ie.elts) == 3 and isinstance(ie.elts[1], ast.Starred):
            a0, a1, a2 = norm(ie.elts[0]), norm(ie.elts[1].value), norm(ie.elts[2])
            if a0.startswith('NEW_ApplicationContextItem') and a1 == 'build_pres_context_def_list(self.context_def_list)' \
                    and a2.startswith('NEW_UserInformationItem'):
                ok_items = True
                app_tok, ui_tok = a0, a2
                app = dict((f_, v) for t, f_, v in s.heap if t == app_tok)
                name = repo.try_fold(ast.parse(app.get('@context_name', 'None'), mode='eval').body, req.module)
                if name != APP_CONTEXT:
                    probs.append('application context name is %r, DICOM: %s' % (name, APP_CONTEXT))
                ui = dict((f_, v) for t, f_, v in s.heap if t == ui_tok)
                ud = ui.get('@user_data', '')
                if not ud.startswith('[NEW_MaximumLengthSubItem'):
                    probs.append('user information starts with %s, not the maximum length sub-item' % ud[:60])
                else:
                    ml_tok = ud[1:].split(',')[0].split(']')[0]
                    ml = dict((f_, v) for t, f_, v in s.heap if t == ml_tok)
                    if ml.get('@maximum_length_received') != 'self.max_pdu_length':
                        probs.append('announced maximum length is %s, not self.max_pdu_length' % ml.get('@maximum_length_received'))
        if not ok_items:
            probs.append('variable items are %s, expected application context + one item per configured context + user information' % items[:120])
    rep.check(not probs, 'C11.Q2', 'asceprovider:AssociationRequester._request:request-fields', req.loc(),
              'AE titles, application context, maximum length, contexts from the configured list (%d send paths)' % seen_variants,
              '; '.join(sorted(set(probs))))
    # builder of the presentation context items
    bp = repo.func('asceprovider', 'build_pres_context_def_list')
    rep.analysed(bp)
    probs = []
    # canonical form after normalisation (a returned generator expression and a nested generator both become this):
    #   for <id>, <ctx> in <entries of the definition list>: yield PresentationContextItemRQ(<id>, AbstractSyntax(<ctx>.sop_class), [...])
    loops_ = [n for n in ast.walk(bp.node) if isinstance(n, ast.For)]
    ys_ = [(lp_, y) for lp_ in loops_ for y in ast.walk(lp_) if isinstance(y, ast.Yield) and isinstance(y.value, ast.Call)
           and norm(y.value.func).endswith('PresentationContextItemRQ')]
    comps_ = [n for n in ast.walk(bp.node) if isinstance(n, (ast.GeneratorExp, ast.ListComp)) and isinstance(n.elt, ast.Call)
              and norm(n.elt.func).endswith('PresentationContextItemRQ')]
    if ys_:
        lp_, y_ = ys_[0]
        tgt, it_node, elt = lp_.target, lp_.iter, y_.value
        # locals of the loop body that only name parts of the item (``abstract_syntax = pdu.AbstractSyntaxSubItem(..)``)
        loc_ = {norm(n.targets[0]): n.value for n in lp_.body if isinstance(n, ast.Assign) and len(n.targets) == 1
                and isinstance(n.targets[0], ast.Name)}
        if loc_:
            from ..layout import _subst_names
            elt = _subst_names(elt, loc_)
    elif comps_:
        tgt, it_node, elt = comps_[0].generators[0].target, comps_[0].generators[0].iter, comps_[0].elt
    else:
        tgt = it_node = elt = None
    if elt is None:
        probs.append('no PresentationContextItemRQ built per entry')
    else:
        it = norm(it_node)
        # the iterable may have been bound to a local first
        for n_ in ast.walk(bp.node):
            if isinstance(n_, ast.Assign) and len(n_.targets) == 1 and norm(n_.targets[0]) == it:
                it = norm(n_.value)
        if bp.params[0] not in it or 'items' not in it:
            probs.append('does not iterate the entries of the definition list (%s)' % it)
        if isinstance(tgt, ast.Tuple) and len(tgt.elts) == 2:
            kid, ctx = norm(tgt.elts[0]), norm(tgt.elts[1])
            a = elt.args
            if len(a) != 3 or norm(a[0]) != kid:
                probs.append('context id of the item is %s, not the entry\'s key' % (norm(a[0]) if a else None))
            if len(a) >= 2 and norm(a[1]) != 'pdu.AbstractSyntaxSubItem(%s.sop_class)' % ctx:
                probs.append('abstract syntax is %s' % norm(a[1]))
            if len(a) >= 3:
                t = a[2]
                from ..sym import inline_pure_calls as _ipc
                try:
                    t = ast.parse(_ipc(norm(t), repo, bp.module.name), mode='eval').body     # one-expression helpers in place
                except SyntaxError:
                    pass
                src_ = t.generators[0].iter if isinstance(t, (ast.ListComp, ast.GeneratorExp)) else None
                # the configured syntaxes in some order: sorted(..) / list(..) / tuple(..) / reversed(..) of them, each possibly
                # wrapped in the identity uid.UID(..) by a comprehension, is still each configured syntax once
                keys_ = []
                while src_ is not None:
                    if isinstance(src_, ast.Call) and isinstance(src_.func, ast.Name) and src_.func.id in ('sorted', 'list', 'tuple', 'reversed') \
                            and len(src_.args) == 1 and all(k_.arg in ('key', 'reverse') for k_ in src_.keywords):
                        keys_ += [k_.value for k_ in src_.keywords if k_.arg == 'key']
                        src_ = src_.args[0]
                    elif isinstance(src_, (ast.ListComp, ast.GeneratorExp)) and len(src_.generators) == 1 and not src_.generators[0].ifs \
                            and norm(src_.elt) in (norm(src_.generators[0].target), 'uid.UID(%s)' % norm(src_.generators[0].target),
                                                   'UID(%s)' % norm(src_.generators[0].target)):
                        src_ = src_.generators[0].iter
                    else:
                        break
                okts = isinstance(t, (ast.ListComp, ast.GeneratorExp)) and src_ is not None and norm(src_) == '%s.supported_ts' % ctx \
                    and norm(t.elt) == 'pdu.TransferSyntaxSubItem(%s)' % norm(t.generators[0].target)
                for k_ in keys_:
                    # ... provided the order is defined for every UID the entity may be configured with
                    from ..pitfalls import pydicom_uid_raising_properties
                    bad_ = pydicom_uid_raising_properties()
                    if isinstance(k_, ast.Lambda) and len(k_.args.args) == 1:
                        p_ = k_.args.args[0].arg
                        for n_ in ast.walk(k_.body):
                            if isinstance(n_, ast.Attribute) and isinstance(n_.value, ast.Name) and n_.value.id == p_ and n_.attr in bad_:
                                probs.append('the proposed syntaxes are ordered by a key that reads UID.%s, which pydicom defines only for the '
                                             'transfer syntaxes in its own dictionary (%s): for any other configured UID -- a private '
                                             'transfer syntax -- it raises ValueError and no request can be built' % (n_.attr, bad_[n_.attr]))
                    elif not (isinstance(k_, ast.Constant) and k_.value is None):
                        rep.undecided('C11.Q2', '%s: the proposed transfer syntaxes are ordered by %s, a key function the rule cannot '
                                      'show to be defined for every UID' % (bp.loc(), norm(k_)[:80]))
                if not okts:
                    probs.append('transfer syntaxes are %s, not one sub-item per configured syntax' % norm(t))
        else:
            probs.append('entries are not unpacked as (id, context)')
    rep.check(not probs, 'C11.Q2', 'asceprovider:build_pres_context_def_list:items', bp.loc(),
              'one item per entry with its id, SOP class and every configured transfer syntax', '; '.join(probs))
    # the list proposed is a copy of the entity's and the titles passed are the entity's
    initf = rq.find_method('__init__')
    reqf = rq.find_method('request')
    rep.analysed(initf)
    rep.analysed(reqf)
    probs = []
    from .c20 import proposal_sources
    srcs_ = proposal_sources(repo)
    if not any(v_ in ('locked-copy', 'unlocked-copy') for _f, _l, v_ in srcs_) or \
            any(v_ not in ('locked-copy', 'unlocked-copy', 'empty') for _f, _l, v_ in srcs_):
        probs.append('the proposal is not built from a copy of the entity\'s context definition list')
    calls = [n for n in ast.walk(reqf.node) if isinstance(n, ast.Call) and norm(n.func) == 'self._request']
    if not calls or [norm(a) for a in calls[0].args[:2]] != ['self.ae.local_ae', 'self.remote_ae']:
        probs.append('_request is not called with (local entity, remote entity)')
    rep.check(not probs, 'C11.Q2', 'asceprovider:AssociationRequester.request:sources', reqf.loc(),
              'proposal from a copy of the configured list; titles from the local and remote entity', '; '.join(probs))

    # ---------------------------------------------------------------- Q3
    probs = []
    st = [(e, s) for e, s in c.log if e.kind == 'store' and (e.callee.startswith('self.sop_classes_as_scu') or e.callee.startswith('self.accepted_contexts'))]
    if not st:
        probs.append('accepted contexts are never recorded')
    rsp = 'self.dul.receive(self.ae.timeout)'
    class _Present(ast.NodeTransformer):
        """``None if x.ts_sub_item is None else E``: an accepted context carries its transfer syntax sub-item (PS3.8 9.3.3.2), so for
        the replies the property is about the expression is E"""
        def visit_IfExp(self_, n):
            self_.generic_visit(n)
            t = n.test
            if isinstance(t, ast.Compare) and len(t.ops) == 1 and isinstance(t.comparators[0], ast.Constant) and t.comparators[0].value is None \
                    and norm(t.left).endswith('.ts_sub_item'):
                if isinstance(t.ops[0], ast.Is) and isinstance(n.body, ast.Constant) and n.body.value is None:
                    return n.orelse
                if isinstance(t.ops[0], ast.IsNot) and isinstance(n.orelse, ast.Constant) and n.orelse.value is None:
                    return n.body
            return n

    def present(t):
        try:
            e_ = ast.parse(t, mode='eval').body
        except SyntaxError:
            return t
        return norm(_Present().visit(e_))
    # replies collected in a local mapping before the tables are written: the presentation context id is what identifies a
    # context (PS3.8 9.3.3.2) -- a mapping keyed by anything else (the SOP class: one class may be proposed in two contexts, as SCU
    # and as SCP) loses a reply
    pk = []
    for hf_ in repo.helper_closure(req):
        item_vars = {}
        for lp_ in [x for x in ast.walk(hf_.node) if isinstance(x, ast.For) and isinstance(x.target, ast.Name)
                    and 'variable_items' in norm(x.iter)]:
            item_vars[lp_.target.id] = lp_
        for iv, lp_ in item_vars.items():
            defs_ = {}      # locals bound to the proposed definition looked up by the reply's id
            for a_ in ast.walk(lp_):
                if isinstance(a_, ast.Assign) and len(a_.targets) == 1 and isinstance(a_.targets[0], ast.Name) \
                        and ('%s.context_id' % iv) in norm(a_.value) and 'context_def_list' in norm(a_.value):
                    defs_[a_.targets[0].id] = a_
            good_keys = {'%s.context_id' % iv} | {'%s.id' % d_ for d_ in defs_}
            for c_ in ast.walk(lp_):
                key_, val_, tgt_ = None, None, None
                if isinstance(c_, ast.Call) and isinstance(c_.func, ast.Attribute) and c_.func.attr == 'setdefault' and len(c_.args) == 2 \
                        and isinstance(c_.func.value, ast.Name):
                    tgt_, key_, val_ = c_.func.value.id, c_.args[0], c_.args[1]
                elif isinstance(c_, ast.Assign) and len(c_.targets) == 1 and isinstance(c_.targets[0], ast.Subscript) \
                        and isinstance(c_.targets[0].value, ast.Name):
                    tgt_, key_, val_ = c_.targets[0].value.id, c_.targets[0].slice, c_.value
                if key_ is None or not any(isinstance(x, ast.Name) and x.id == iv for x in ast.walk(val_)):
                    continue
                if norm(key_) not in good_keys:
                    pk.append('%s: replies are collected in %s under %s, not under the reply\'s context id: a second context with the same '
                              'key (one SOP class proposed as SCU and as SCP) loses its answer' % (hf_.loc(c_), tgt_, norm(key_)))
    rep.check(not pk, 'C11.Q3', 'asceprovider:AssociationRequester._request:reply-keys', req.loc(),
              'replies are matched to proposals by presentation context id', '; '.join(sorted(set(pk))))
    whole = [e for e, _s in st if len(e.args) < 2]
    if whole:
        # ``self.sop_classes_as_scu = <a dict built in a local>``: the table is replaced as a whole, its entries were written to a
        # local the store events do not follow
        rep.undecided('C11.Q3', '%s: the SCU table is assigned as a whole at line %d (built in a local first): which entries it gets '
                      'is not followed' % (req.loc(), whole[0].line))
        st = [(e, s) for e, s in st if len(e.args) >= 2]
    for e, s in st:
        key, val = present(expand_items(e.args[0])), present(expand_items(e.args[1]))
        conds = [expand_items(x) for x in e.conds]
        # the loop variable: an element of the reply's presentation-context items, either filtered by a
        # generator on result_reason == 0 or tested on the path
        item, src, gen_ok = None, None, False
        try:
            kt = ast.parse(key + ' if 1 else ' + val, mode='eval').body
        except SyntaxError:
            kt = None
        for n in (ast.walk(kt) if kt is not None else []):
            if isinstance(n, ast.Call) and isinstance(n.func, ast.Name) and n.func.id == 'ITEM' and len(n.args) == 1:
                item = norm(n)
                a0 = n.args[0]
                if isinstance(a0, ast.GeneratorExp) and len(a0.generators) == 1 and isinstance(a0.generators[0].target, ast.Name) \
                        and isinstance(a0.elt, ast.Name) and a0.elt.id == a0.generators[0].target.id:
                    g0 = a0.generators[0]
                    src = norm(g0.iter)
                    gen_ok = [norm(x) for x in g0.ifs] in (['%s.result_reason == 0' % g0.target.id], ['0 == %s.result_reason' % g0.target.id])
                else:
                    src = norm(a0)
                break
        if item is None:
            item = 'ITEM(?)'
            probs.append('%s is not written from an element of the reply\'s presentation contexts' % e.callee)
        elif not (src.endswith('.variable_items[1:-1]') and src.startswith(rsp)):
            probs.append('accepted contexts are taken from %s, not from the reply\'s presentation context items' % src)
        if not gen_ok and not any(x in ('+%s.result_reason == 0' % item, '+0 == %s.result_reason' % item,
                                        '-%s.result_reason != 0' % item, '-%s.result_reason' % item,
                                        '+not %s.result_reason' % item) for x in conds):
            probs.append('%s written without testing result_reason == 0' % e.callee)
        if e.callee.startswith('self.sop_classes_as_scu'):
            if key != 'self.context_def_list[%s.context_id].sop_class' % item:
                probs.append('SCU table keyed by %s, not by the SOP class proposed under the reply\'s context id' % key)
            if val != '(%s.context_id, uid.UID(%s.ts_sub_item.name))' % (item, item):
                probs.append('SCU table records %s, expected (reply context id, reply transfer syntax)' % val)
        else:
            if key != '%s.context_id' % item:
                probs.append('accepted_contexts keyed by %s' % key)
            if 'uid.UID(%s.ts_sub_item.name)' % item not in val:
                probs.append('accepted_contexts records %s without the reply\'s transfer syntax' % val)
    lines = {e.line for e, s in st}
    if len(lines) > 2:
        probs.append('%d writer sites for the accepted-context tables' % len(lines))
    others = []
    own = {hf.key for hf in repo.helper_closure(req)}
    for f2 in repo.all_functions():
        if f2.key in own:
            continue
        for n in ast.walk(f2.node):
            if isinstance(n, ast.Assign):
                for t in n.targets:
                    if isinstance(t, ast.Subscript) and norm(t.value).endswith('sop_classes_as_scu'):
                        others.append(f2.key)
                    # a local alias of the table (``table = self.sop_classes_as_scu``) written in another function
                    if isinstance(t, ast.Subscript) and isinstance(t.value, ast.Name) and any(
                            isinstance(a_, ast.Assign) and norm(a_.targets[0]) == t.value.id and norm(a_.value).endswith('sop_classes_as_scu')
                            for a_ in ast.walk(f2.node)):
                        others.append(f2.key)
    if others:
        probs.append('sop_classes_as_scu is also written by %s' % sorted(set(others)))
    rep.check(not probs, 'C11.Q3', 'asceprovider:AssociationRequester._request:reply-processing', req.loc(),
              'single writer, result 0 only, keyed through the proposed list, reply\'s transfer syntax (%d stores)' % len(st),
              '; '.join(sorted(set(probs))))

    # ---------------------------------------------------------------- Q4
    gs = rq.find_method('get_scu')
    rep.analysed(gs)

    def raises(node, client, state):
        out = []
        for n in ast.walk(node):
            if isinstance(n, ast.Subscript) and isinstance(n.ctx, ast.Load) and norm(n.value) in ('self.sop_classes_as_scu', 'self.ae.supported_scu'):
                out.append('KeyError')
        return out
    gc = SymClient(repo, gs, event_of=lambda call, callee, *_: 'partial' if callee.endswith('partial') else None,
                   hierarchy=hier, raises_of=raises)
    gfin = gc.final_states(gc.run(empty_state()))
    probs = []
    sp = gs.params[1]
    ok_ret = 0
    for s, how in gfin:
        if how == 'raise:KeyError':
            probs.append('a SOP class without an accepted context raises KeyError, not ClassNotSupportedError')
        elif how.startswith('raise:') and how != 'raise:ClassNotSupportedError':
            probs.append('lookup raises %s' % how[6:])
        elif how == 'return':
            want = 'functools.partial(self.ae.supported_scu[%s], self, PContextDef(self.sop_classes_as_scu[%s][0], %s, self.sop_classes_as_scu[%s][1]))' % (sp, sp, sp, sp)
            if s.ret != want:
                probs.append('returns %s, expected the service bound to (association, accepted context)' % s.ret)
            else:
                ok_ret += 1
    if ok_ret == 0:
        probs.append('no successful lookup path')
    if not any(how == 'raise:ClassNotSupportedError' for s, how in gfin):
        probs.append('a missing entry is not reported as ClassNotSupportedError')
    rep.check(not probs, 'C11.Q4', 'asceprovider:AssociationRequester.get_scu:lookup', gs.loc(),
              'binds (id, syntax) of the accepted context; missing entry -> ClassNotSupportedError', '; '.join(sorted(set(probs))))

    # ---------------------------------------------------------------- Q6: the tables belong to this association
    from .c20 import per_instance_problems
    p6 = per_instance_problems(repo, rq)
    rep.check(not p6, 'C11.Q6', 'asceprovider:AssociationRequester:tables-per-association', rq.loc(),
              'accepted-context tables are created per association', '; '.join(p6))

    # ---------------------------------------------------------------- Q7: one-shot iterators
    from ..pitfalls import oneshot_reuse
    p7 = []
    n7 = 0
    for cname_, mname_ in (('AEBase', 'update_context_def_list'), ('AEBase', '_build_context_def_list'), ('AEBase', 'add_scu'),
                           ('AE', 'add_scp'), ('AEBase', 'copy_context_def_list')):
        fn_ = repo.cls('applicationentity', cname_).find_method(mname_)
        if fn_ is not None:
            n7 += 1
            p7 += oneshot_reuse(repo, fn_)
    for fn_ in [repo.func('asceprovider', 'build_pres_context_def_list'), rq.find_method('_request'), rq.find_method('request')]:
        if fn_ is not None:
            n7 += 1
            for hf in repo.helper_closure(fn_):
                p7 += oneshot_reuse(repo, hf)
    rep.check(not p7, 'C11.Q7', 'applicationentity:context-configuration:iterators', ae.loc(),
              '%d functions consume no one-shot iterator twice' % n7, '; '.join(sorted(set(p7))))
