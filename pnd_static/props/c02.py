"""C02 -- wire format matches the PS3.8 / PS3.7 layouts (lengths, order, widths).

Decided: the encoder layout terms against the transcribed standard layouts (type codes,
field order, widths, big-endian, which attribute carries which field, what each length
field governs) and the structural part of the converse direction (any order, unknown
sub-items, several transfer syntaxes / PDVs, containers respect their length).  Together
with C01 (decoder = inverse of encoder) this ties the decoder to the standard too."""
from ..codec_rules import check_wire
from ..layout import LayoutExtractor


def run(repo, rep):
    from ..pitfalls import memo_rule as _memo_rule
    _memo_rule(repo, rep, 'C02', 'C02.Z1')
    from ..pitfalls import log_rule as _log_rule
    _log_rule(repo, rep, 'C02', 'C02.Z2')
    from ..api_pitfalls import truth_rule as _truth_rule
    _truth_rule(repo, rep, 'C02', 'C02.Z4')
    from ..api_pitfalls import attribute_rule as _attribute_rule
    _attribute_rule(repo, rep, 'C02', 'C02.Z5')
    lx = LayoutExtractor(repo)
    rep.trust('PS3.8 9.3.2-9.3.8, Annex D.1 and PS3.7 Annex D.3.3 as transcribed in pnd_static/oracles/ps3_8_layouts.py, '
              'including the attribute -> standard field map (confirmed by reading)')
    rep.trust('CPython struct semantics')
    rep.assume('A1: text fields are ASCII (len(x.encode()) == len(x))')
    rep.assume('padding character of AE titles is outside the property\'s three enumerated aspects (struct pads 16s with NUL)')
    rep.rule('C02.L1', 'type code of each class = standard PDU / item type', 23)
    rep.rule('C02.L6', 'a conformant value is never refused: no guard in a constructor (which the decoder uses) or an encoder rejects '
             'a value the field can carry -- folded at 0 and at the largest value of the field (same analysis as C01.O12)', 23)
    rep.rule('C02.L2', 'field order, width, big-endian byte order and carried attribute per position', 23)
    rep.rule('C02.L3', 'each length field equals the number of bytes the standard says it governs; fixed lengths; '
             'total_length() = bytes emitted', 23)
    rep.rule('C02.L5', 'converse direction (values): text fields (fixed-width NUL-padded or length-delimited) decode to the value a '
             'conformant encoder wrote, including at the full field width', 23)
    rep.rule('C02.L4', 'converse direction (structure): sub-items in any order with generic fallback and delimited by the '
             'item length; variable items by type; several transfer syntaxes; several PDVs up to the PDU length', 5)
    check_wire(lx, rep, 'C02')
    for a in lx.assumptions:
        rep.assume(a)
