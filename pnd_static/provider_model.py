"""Shared analysis configuration for dulprovider.DULServiceProvider (C03, C05, C12, C13)."""
from __future__ import annotations

import ast
from typing import Dict, List, Optional, Set, Tuple

from .flow import attr_chain, calls_in
from .fsm_model import FsmModel, exc_hierarchy
from .srcmodel import AnalysisError, ClassRef, FuncInfo, NotConst, Repo
from .sym import Event, SymClient, SymState, empty_state

PRODUCERS = ('_check_network', '_check_outgoing_pdu', '_check_timer')
HELPERS = ('_check_incoming_pdu', '_process_incoming', '_close')

STORE_ATTRS = ('self.dul_socket', 'self.raw_pdu', 'self.primitive', 'self.is_killed', 'self.dimse_gen')


def event_kind(call: ast.Call, callee: str, client, state) -> Optional[str]:
    """Classify the calls of the provider loop the rules talk about."""
    if callee == 'self.event.append' or callee == 'self.event.appendleft':
        return 'append'
    if callee == 'self.event.popleft' or callee == 'self.event.pop':
        return 'pop'
    if callee.endswith('.recv') and 'dul_socket' in callee:
        return 'recv'
    if callee.endswith('.close') and 'dul_socket' in callee:
        return 'close'
    if callee in ('select.select',):
        return 'select'
    if callee.startswith(('select.poll(', 'select.epoll(')) and callee.endswith(').poll'):
        return 'poll'
    if callee.startswith(('select.poll(', 'select.epoll(')) and callee.endswith(').register'):
        return 'pollreg'
    if callee.endswith('.settimeout') and 'dul_socket' in callee:
        return 'settimeout'
    if callee in ('self.from_service_user.get', 'self.from_service_user.get_nowait'):
        return 'qget'
    if callee == 'next':
        return 'next'
    if callee == 'self.timer.check':
        return 'tcheck'
    if callee.endswith('.decode') and isinstance(call.func, ast.Attribute):
        return 'decode'
    if callee in ('self.to_service_user.put', 'self.to_service_user.put_nowait'):
        return 'indicate'
    if callee == 'self._is_killed.set':
        return 'killed_set'
    if callee == 'self._is_killed.wait':
        return 'killed_wait'
    if callee == 'self.state_machine.action':
        return 'action'
    if callee in ('self.' + p for p in PRODUCERS + HELPERS):
        return 'call:' + callee[5:]
    if callee == 'self.start':
        return 'start'
    if callee in ('struct.unpack', 'struct.unpack_from') or callee.endswith('.unpack') or callee.endswith('.unpack_from'):
        return 'unpack'
    if callee == 'int.from_bytes':
        return 'unpack'
    if callee == 'six.indexbytes':
        return 'indexbytes'
    if callee == 'len':
        return None
    return None


def store_event(target: str) -> bool:
    return target in STORE_ATTRS


class ProviderModel:
    def __init__(self, repo: Repo, fsm: Optional[FsmModel] = None):
        self.repo = repo
        self.mod = repo.module('dulprovider')
        self.cls = repo.cls('dulprovider', 'DULServiceProvider')
        self.hier = exc_hierarchy(repo)
        self.fsm = fsm

    def method(self, name: str) -> FuncInfo:
        f = self.cls.find_method(name)
        if f is None:
            raise AnalysisError('DULServiceProvider.%s not found' % name)
        return f

    def client(self, name: str, inline_helpers=True, raises_of=None, inline_names=None) -> SymClient:
        f = self.method(name)
        names = set(inline_names) if inline_names is not None else (set(HELPERS) if inline_helpers else set())
        never = {'run', 'start', 'kill', 'stop', 'send', 'receive', '__init__', 'join', 'is_alive'} | set(PRODUCERS)

        def inline(fi):
            if fi.cls is None or fi.cls.key != self.cls.key:
                return False
            if fi.name in names:
                return True
            # helpers the maintainers may introduce later are always looked into
            return fi.name not in never and fi.name not in HELPERS and fi.kind == 'method'
        return SymClient(self.repo, f, event_of=event_kind, inline=inline, hierarchy=self.hier,
                         raises_of=raises_of, store_event=store_event)

    def paths(self, name: str, **kw) -> List[Tuple[SymState, str]]:
        c = self.client(name, **kw)
        o = c.run(empty_state())
        return c.final_states(o)

    def paths_and_log(self, name: str, **kw):
        c = self.client(name, **kw)
        o = c.run(empty_state())
        return c.final_states(o), list(c.log)


def appended_event(ev: Event, model_fsm: FsmModel, repo: Repo, mod) -> Optional[str]:
    """Name of the event constant an 'append' event adds ('EVT_17'), or None if the
    argument is not a constant (table-driven append)."""
    if not ev.args:
        return None
    try:
        e = ast.parse(ev.args[0], mode='eval').body
    except SyntaxError:
        return None
    ch = attr_chain(e)
    if ch and len(ch) >= 2 and ch[-2] == 'Events':
        return ch[-1]
    try:
        v = repo.fold(e, mod)
    except NotConst:
        return None
    if isinstance(v, int) and v in model_fsm.event_by_val:
        return model_fsm.event_by_val[v]
    return None


def cond_polarity(c: str) -> Tuple[Optional[bool], str]:
    if c.startswith('+'):
        return True, c[1:]
    if c.startswith('-'):
        return False, c[1:]
    return None, c


def parse_cond(c: str):
    pol, txt = cond_polarity(c)
    if pol is None:
        return None, None
    try:
        return pol, ast.parse(txt, mode='eval').body
    except SyntaxError:
        return pol, None


def is_recv_call(e) -> bool:
    return isinstance(e, ast.Call) and isinstance(e.func, ast.Attribute) and e.func.attr == 'recv'


def cond_says_recv_empty(c: str) -> bool:
    """Does this path condition establish that a recv() returned no data?"""
    pol, e = parse_cond(c)
    if e is None:
        return False
    if is_recv_call(e):
        return pol is False
    if isinstance(e, ast.Compare) and len(e.ops) == 1:
        l, r = e.left, e.comparators[0]
        other = r if is_recv_call(l) else l if is_recv_call(r) else None
        if other is None:
            # len(recv()) == 0
            for side, o in ((l, r), (r, l)):
                if isinstance(side, ast.Call) and isinstance(side.func, ast.Name) and side.func.id == 'len' \
                        and side.args and is_recv_call(side.args[0]) and isinstance(o, ast.Constant) and o.value == 0:
                    return (isinstance(e.ops[0], ast.Eq) and pol) or (isinstance(e.ops[0], (ast.NotEq, ast.Gt)) and not pol)
            return False
        if isinstance(other, ast.Constant) and other.value in (b'', ''):
            if isinstance(e.ops[0], ast.Eq):
                return pol is True
            if isinstance(e.ops[0], ast.NotEq):
                return pol is False
    return False


def cond_says_socket_present(c: str) -> bool:
    pol, e = parse_cond(c)
    if e is None:
        return False
    txt = ast.unparse(e)
    if txt == 'self.dul_socket':
        return pol is True
    if txt in ('self.dul_socket is None', 'self.dul_socket == None'):
        return pol is False
    if txt in ('self.dul_socket is not None', 'self.dul_socket != None'):
        return pol is True
    return False


# --------------------------------------------------------------------------- raise sets

def pdu_decode_raise_set(repo: Repo) -> Set[str]:
    from .excmodel import codec_decode_raises
    sets = codec_decode_raises(repo)
    out: Set[str] = set()
    for name in ('AAssociateRqPDU', 'AAssociateAcPDU', 'AAssociateRjPDU', 'PDataTfPDU',
                 'AReleaseRqPDU', 'AReleaseRpPDU', 'AAbortPDU'):
        out |= sets.get(name, set())
    return out


def make_raises(repo: Repo, decode_set: Set[str], action_set: Optional[Set[str]] = None,
                producer_sets: Optional[Dict[str, Set[str]]] = None):
    """raises_of callback for the provider analyses: library model + decoder set for
    table-driven decode + (optionally) summaries for action() and the producers."""
    from .excmodel import node_raises, folder
    fold = folder(repo, 'dulprovider', 'DULServiceProvider')

    def known_long_enough(call, term_of, state) -> bool:
        """``six.indexbytes(buf[:L], i)`` where L = c + <length field of buf> with c > i, on a path that established
        ``len(buf) >= L``: the slice has L > i bytes, the index cannot be out of range"""
        if not (len(call.args) == 2 and isinstance(call.args[1], ast.Constant) and isinstance(call.args[1].value, int)):
            return False
        try:
            a = ast.parse(term_of(call.args[0]), mode='eval').body
        except SyntaxError:
            return False
        if isinstance(a, (ast.Name, ast.Attribute)):
            # the buffer itself, on a path that has established a minimum length (``len(buf) < N`` was false, N > i) -- or, for
            # byte 0, that the buffer is not empty
            b_, i_ = ast.unparse(a), call.args[1].value
            import re as _re
            for cn in state.conds:
                m_ = _re.match(r'^-len\((.+)\) < (\d+)$', cn) or _re.match(r'^\+len\((.+)\) >= (\d+)$', cn)
                if m_ and m_.group(1) == b_ and int(m_.group(2)) > i_ >= 0:
                    return True
                m_ = _re.match(r'^-len\((.+)\) <= (\d+)$', cn) or _re.match(r'^\+len\((.+)\) > (\d+)$', cn)
                if m_ and m_.group(1) == b_ and int(m_.group(2)) >= i_ >= 0:
                    return True
                if i_ == 0 and cn in ('+' + b_, '-not ' + b_):
                    return True
            return False
        if not (isinstance(a, ast.Subscript) and isinstance(a.slice, ast.Slice) and a.slice.lower is None and a.slice.upper is not None
                and a.slice.step is None):
            return False
        buf, upper = ast.unparse(a.value), ast.unparse(a.slice.upper)
        from .props.c03 import _len_buf_bound, _parse_full_length
        parsed = _parse_full_length(upper, repo, buf=buf)
        if parsed is None or parsed[3] <= call.args[1].value:
            return False
        return any(b is not None and b[0] == upper and b[1] >= 0 for b in (_len_buf_bound(c, buf) for c in state.conds))

    def raises_of(node, client, state):
        term_of = lambda e: client.term(e, state, heap_ext=False)
        out = list(node_raises(node, term_of, fold))
        if 'IndexError' in out:
            idx_calls = [c_ for c_ in calls_in(node) if term_of(c_.func) in ('six.indexbytes', 'indexbytes')]
            others = [c_ for c_ in calls_in(node) if c_ not in idx_calls]
            def without_idx(n_):
                import copy as _copy
                ids = {(getattr(c_, 'lineno', 0), getattr(c_, 'col_offset', 0), ast.dump(c_)) for c_ in idx_calls}

                class R(ast.NodeTransformer):
                    def visit_Call(self_, x):
                        if (getattr(x, 'lineno', 0), getattr(x, 'col_offset', 0), ast.dump(x)) in ids:
                            return ast.copy_location(ast.Constant(value=0), x)
                        return self_.generic_visit(x)
                return R().visit(_copy.deepcopy(n_))
            if idx_calls and all(known_long_enough(c_, term_of, state) for c_ in idx_calls) \
                    and 'IndexError' not in [x for c_ in others for x in node_raises(without_idx(c_), term_of, fold)]:
                out = [x for x in out if x != 'IndexError']
        for call in calls_in(node):
            callee = term_of(call.func)
            if callee.endswith('.decode') and call.args and ('PDU_TYPES' in callee or callee.split('.')[0] in ('pdu_type', 'pdu_class')):
                out.extend(decode_set)
            if action_set is not None and callee == 'self.state_machine.action':
                out.extend(action_set)
            if producer_sets is not None and callee.startswith('self.') and callee[5:] in producer_sets:
                out.extend(producer_sets[callee[5:]])
        return out
    return raises_of


def action_raise_sets(fsm: FsmModel):
    """{(evt, sta): {exception: [origin text]}} for every defined cell, plus the lookup."""
    from .fsm_model import cell_context
    from .oracles import ps3_8
    out = {}
    for (e, s) in sorted(ps3_8.TABLE):
        meth = fsm.table.get(('EVT_%d' % e, 'STA_%d' % s))
        if meth is None:
            continue
        prim, sock = cell_context(e, s)
        d = {}
        for o in fsm.summarize(meth, prim, sock):
            if o.kind == 'raise':
                d.setdefault(o.exc, set()).add(meth)
        out[(e, s)] = d
    return out


def _is_select_call(e) -> bool:
    return isinstance(e, ast.Call) and ast.unparse(e.func) in ('select.select', 'select')


def _is_poll_call(e) -> bool:
    """``select.poll().poll(t)``: the list of (fd, event mask) pairs reported for the registered objects"""
    return isinstance(e, ast.Call) and isinstance(e.func, ast.Attribute) and e.func.attr == 'poll' and isinstance(e.func.value, ast.Call) \
        and ast.unparse(e.func.value.func) in ('select.poll', 'select.epoll')


def _is_readable_list(e) -> bool:
    """``select.select(...)[0]``: the list of readable objects (what a tuple unpacking binds its first name to); the list a poll
    object reports plays the same part (only objects registered for reading are in it)"""
    if _is_poll_call(e):
        return True
    return isinstance(e, ast.Subscript) and _is_select_call(e.value) and isinstance(e.slice, ast.Constant) and e.slice.value in (0, -3)


def says_readable(pol, e) -> bool:
    """does the condition (expression e holding with polarity pol) say that select() reported something readable?  Only a test
    of its first result list does: the 3-tuple itself is always true."""
    if pol is None:
        return False
    if isinstance(e, ast.UnaryOp) and isinstance(e.op, ast.Not):
        return says_readable(not pol, e.operand)
    if _is_readable_list(e):
        return pol is True
    if isinstance(e, ast.Call) and ast.unparse(e.func) in ('len', 'bool', 'any') and len(e.args) == 1 and _is_readable_list(e.args[0]):
        return pol is True
    if isinstance(e, ast.Compare) and len(e.ops) == 1:
        l, r, op = e.left, e.comparators[0], e.ops[0]
        if isinstance(op, (ast.In, ast.NotIn)) and _is_poll_call(r):
            # ``(fd, POLLIN) in events`` asks for an event mask that is exactly POLLIN: a hang-up or an error is reported as
            # POLLIN | POLLHUP / POLLERR, the pair is not in the list and the end of the stream is never read
            return False
        if isinstance(op, ast.In) and _is_readable_list(r):
            return pol is True
        if isinstance(op, ast.NotIn) and _is_readable_list(r):
            return pol is False
        def is_len(x):
            return isinstance(x, ast.Call) and ast.unparse(x.func) == 'len' and len(x.args) == 1 and _is_readable_list(x.args[0])
        def is_empty(x):
            return (isinstance(x, (ast.List, ast.Tuple)) and not x.elts) or (isinstance(x, ast.Constant) and x.value == 0)
        name = type(op).__name__
        if is_len(r) or _is_readable_list(r):
            l, r = r, l
            name = {'Lt': 'Gt', 'Gt': 'Lt', 'LtE': 'GtE', 'GtE': 'LtE'}.get(name, name)
        if is_len(l) and isinstance(r, ast.Constant) and isinstance(r.value, int):
            k = r.value
            if name == 'Gt' and k >= 0 or name == 'GtE' and k >= 1 or name == 'NotEq' and k == 0:
                return pol is True
            if name == 'Eq' and k == 0 or name == 'Lt' and k == 1 or name == 'LtE' and k == 0:
                return pol is False
        if _is_readable_list(l) and is_empty(r) and not (isinstance(r, ast.Constant)):
            if name == 'NotEq':
                return pol is True
            if name == 'Eq':
                return pol is False
    return False


def blocking_problems(finals, log=None) -> List[str]:
    """E5/K1: every blocking call on a path must be bounded by a timeout.  A select() with timeout
    vouches for exactly one following recv(): a second read (e.g. a drain loop) needs its own."""
    problems = []
    entries = []
    for s, how in finals:
        tr = list(s.trail)
        for i, ev in enumerate(tr):
            entries.append((ev, tr[:i]))
    for ev, st in (log or []):
        entries.append((ev, list(st.trail)))
    for ev, before in entries:
        if True:
            if ev.kind == 'recv':
                # window: events since the previous read / since the start of this loop iteration
                window = []
                for e2 in reversed(before):
                    if e2.kind in ('recv', 'iterated') or (e2.kind == 'loop' and any(x.kind == 'iterated' for x in before)):
                        break
                    window.append(e2)
                ok = False
                whole_tuple = False
                sel_in_window = [e2 for e2 in window if e2.kind == 'select' and len(e2.args) >= 4 and e2.args[3] not in ('None',)
                                 and 'dul_socket' in e2.args[0]]
                sel_in_window += [e2 for e2 in window if e2.kind == 'poll' and e2.args and e2.args[0] != 'None' and not e2.args[0].startswith('-')
                                  and any(e3.kind == 'pollreg' and e3.args and 'dul_socket' in e3.args[0] for e3 in before)]
                exact_mask = False
                for c in ev.conds:
                    pol, e = parse_cond(c)
                    if e is None:
                        continue
                    if says_readable(pol, e) and sel_in_window:
                        ok = True
                    elif sel_in_window and isinstance(e, ast.Compare) and len(e.ops) == 1 and isinstance(e.ops[0], (ast.In, ast.NotIn)) \
                            and _is_poll_call(e.comparators[0]):
                        exact_mask = True
                    elif sel_in_window and _is_select_call(e.operand if isinstance(e, ast.UnaryOp) and isinstance(e.op, ast.Not) else e):
                        whole_tuple = True
                if any(e2.kind == 'settimeout' for e2 in before):
                    ok = True
                if not ok:
                    problems.append('recv() at line %d can block forever: no select() with timeout (or settimeout) vouches for '
                                    'this read%s' % (ev.line, ' (the result of select() is tested as a whole: a 3-tuple of lists is true '
                                                     'whether or not anything is readable)' if whole_tuple else
                                                     ' (the poll result is searched for a pair with one exact event mask: a hang-up or an error '
                                                     'is reported with further bits set, so the read that would see the end of the stream '
                                                     'is not vouched for -- and not made)' if exact_mask else ''))
            if ev.kind == 'select':
                if len(ev.args) < 4 or ev.args[3] in ('None',):
                    problems.append('select() at line %d has no timeout' % ev.line)
            if ev.kind == 'poll':
                if not ev.args or ev.args[0] == 'None' or ev.args[0].startswith('-'):
                    problems.append('poll() at line %d has no timeout' % ev.line)
            if ev.kind == 'qget':
                block = ev.args[0] if ev.args else dict(ev.kwargs).get('block', 'True')
                timeout = ev.args[1] if len(ev.args) > 1 else dict(ev.kwargs).get('timeout', 'None')
                if ev.callee.endswith('get_nowait'):
                    continue
                if block not in ('False', '0') and timeout in ('None',):
                    problems.append('queue get at line %d blocks without timeout' % ev.line)
            if ev.kind == 'killed_wait':
                problems.append('Event.wait() at line %d inside the provider loop' % ev.line)
    return sorted(set(problems))


def parked_primitive_problems(repo, pm):
    """C05.G10 / C16.R10: an attribute of the provider that keeps a request primitive taken from the service user's queue for later is
    written only on a path on which it is known to be empty.  -> (problems, number of such stores)"""
    p10, n10 = [], 0
    _SC, _es = SymClient, empty_state
    for name in PRODUCERS:
        f_ = pm.method(name)
        never_ = {'run', 'start', 'kill', 'stop', 'send', 'receive', '__init__', 'join', 'is_alive'} | set(PRODUCERS)
        cq = _SC(repo, f_, event_of=lambda *a: None, hierarchy=pm.hier,
                 inline=lambda fi: fi.cls is not None and fi.cls.key == pm.cls.key and fi.name not in never_ and fi.kind == 'method',
                 store_event=lambda t: t.startswith('self.') and t.count('.') == 1)
        cq.run(_es())
        for e_, s_ in cq.log:
            if e_.kind != 'store' or not e_.args or 'from_service_user.get(' not in e_.args[0]:
                continue
            attr_ = e_.callee
            if attr_ in ('self.primitive',):
                continue        # the primitive being handled now: an event is appended with it (G3 / G4)
            n10 += 1
            empty_ = any(c_ in ('+%s is None' % attr_, '-%s is not None' % attr_, '-%s' % attr_, '+not %s' % attr_) for c_ in e_.conds)
            if not empty_:
                p10.append('%s: %s = <primitive taken from the queue> at line %d on a path that does not know %s to be empty: a primitive '
                           'parked there before is overwritten and never sent' % (f_.loc(), attr_, e_.line, attr_))
    return sorted(set(p10)), n10
