"""Oracle: wire layouts of PS3.8 section 9.3 and PS3.7 Annex D.3.3, transcribed by hand.

Each structure is a flat sequence of elements
  ('f', standard field name, width in bytes, binding)   fixed-width big-endian field
  ('v', kind, attribute)                                 variable part
binding: 'type' | 'reserved' | 'length' | ('attr', name) | ('len', name) | ('const', n)
kind:    'text' (name/UID characters) | 'bytes' (opaque) | 'child' (one nested item) |
         'items' (sequence of nested items)

The attribute names are the library's (pdu.py / userdataitems.py); which attribute carries
which standard field was confirmed by reading the class docstrings and constructors.
'length_counts' says which bytes the length field governs: everything after the length
field unless stated otherwise.  'fixed_length' is the constant the standard prescribes.
"""

T, R, L = 'type', 'reserved', 'length'


def A(n):
    return ('attr', n)


def LEN(n):
    return ('len', n)


ASSOC = dict(
    fields=[('f', 'PDU-type', 1, T), ('f', 'reserved', 1, R), ('f', 'PDU-length', 4, L),
            ('f', 'protocol-version', 2, A('protocol_version')), ('f', 'reserved', 2, R),
            ('f', 'called-AE-title', 16, A('called_ae_title')), ('f', 'calling-AE-title', 16, A('calling_ae_title')),
            ('f', 'reserved', 32, R),
            ('v', 'items', 'variable_items')],
    clause='PS3.8 9.3.2 / 9.3.3 Tables 9-11, 9-17')

LAYOUTS = {
    'AAssociateRqPDU': dict(ASSOC, type=0x01),
    'AAssociateAcPDU': dict(ASSOC, type=0x02),
    'AAssociateRjPDU': dict(type=0x03, fixed_length=4, clause='PS3.8 9.3.4 Table 9-21', fields=[
        ('f', 'PDU-type', 1, T), ('f', 'reserved', 1, R), ('f', 'PDU-length', 4, L), ('f', 'reserved', 1, R),
        ('f', 'result', 1, A('result')), ('f', 'source', 1, A('source')), ('f', 'reason/diag', 1, A('reason_diag'))]),
    'PDataTfPDU': dict(type=0x04, clause='PS3.8 9.3.5 Table 9-22', fields=[
        ('f', 'PDU-type', 1, T), ('f', 'reserved', 1, R), ('f', 'PDU-length', 4, L),
        ('v', 'items', 'data_value_items')]),
    'PresentationDataValueItem': dict(type=None, clause='PS3.8 9.3.5.1 Table 9-23', fields=[
        ('f', 'item-length', 4, L), ('f', 'presentation-context-ID', 1, A('context_id')),
        ('v', 'bytes', 'data_value')]),
    'AReleaseRqPDU': dict(type=0x05, fixed_length=4, clause='PS3.8 9.3.6 Table 9-24', fields=[
        ('f', 'PDU-type', 1, T), ('f', 'reserved', 1, R), ('f', 'PDU-length', 4, L), ('f', 'reserved', 4, R)]),
    'AReleaseRpPDU': dict(type=0x06, fixed_length=4, clause='PS3.8 9.3.7 Table 9-25', fields=[
        ('f', 'PDU-type', 1, T), ('f', 'reserved', 1, R), ('f', 'PDU-length', 4, L), ('f', 'reserved', 4, R)]),
    'AAbortPDU': dict(type=0x07, fixed_length=4, clause='PS3.8 9.3.8 Table 9-26', fields=[
        ('f', 'PDU-type', 1, T), ('f', 'reserved', 1, R), ('f', 'PDU-length', 4, L), ('f', 'reserved', 1, R),
        ('f', 'reserved', 1, R), ('f', 'source', 1, A('source')), ('f', 'reason/diag', 1, A('reason_diag'))]),
    'ApplicationContextItem': dict(type=0x10, clause='PS3.8 9.3.2.1 Table 9-12', fields=[
        ('f', 'item-type', 1, T), ('f', 'reserved', 1, R), ('f', 'item-length', 2, L),
        ('v', 'text', 'context_name')]),
    'PresentationContextItemRQ': dict(type=0x20, clause='PS3.8 9.3.2.2 Table 9-13', fields=[
        ('f', 'item-type', 1, T), ('f', 'reserved', 1, R), ('f', 'item-length', 2, L),
        ('f', 'presentation-context-ID', 1, A('context_id')), ('f', 'reserved', 1, R), ('f', 'reserved', 1, R),
        ('f', 'reserved', 1, R), ('v', 'child', 'abs_sub_item'), ('v', 'items', 'ts_sub_items')]),
    'PresentationContextItemAC': dict(type=0x21, clause='PS3.8 9.3.3.2 Table 9-18', fields=[
        ('f', 'item-type', 1, T), ('f', 'reserved', 1, R), ('f', 'item-length', 2, L),
        ('f', 'presentation-context-ID', 1, A('context_id')), ('f', 'reserved', 1, R),
        ('f', 'result/reason', 1, A('result_reason')), ('f', 'reserved', 1, R), ('v', 'child', 'ts_sub_item')]),
    'AbstractSyntaxSubItem': dict(type=0x30, clause='PS3.8 9.3.2.2.1 Table 9-14', fields=[
        ('f', 'item-type', 1, T), ('f', 'reserved', 1, R), ('f', 'item-length', 2, L), ('v', 'text', 'name')]),
    'TransferSyntaxSubItem': dict(type=0x40, clause='PS3.8 9.3.2.2.2 Table 9-15', fields=[
        ('f', 'item-type', 1, T), ('f', 'reserved', 1, R), ('f', 'item-length', 2, L), ('v', 'text', 'name')]),
    'UserInformationItem': dict(type=0x50, clause='PS3.8 9.3.2.3 Table 9-16', fields=[
        ('f', 'item-type', 1, T), ('f', 'reserved', 1, R), ('f', 'item-length', 2, L), ('v', 'items', 'user_data')]),
    'MaximumLengthSubItem': dict(type=0x51, fixed_length=4, clause='PS3.8 Annex D.1 Table D.1-1', fields=[
        ('f', 'item-type', 1, T), ('f', 'reserved', 1, R), ('f', 'item-length', 2, L),
        ('f', 'maximum-length-received', 4, A('maximum_length_received'))]),
    'ImplementationClassUIDSubItem': dict(type=0x52, clause='PS3.7 D.3.3.2.1 Table D.3-1', fields=[
        ('f', 'item-type', 1, T), ('f', 'reserved', 1, R), ('f', 'item-length', 2, L),
        ('v', 'text', 'implementation_class_uid')]),
    'AsynchronousOperationsWindowSubItem': dict(type=0x53, fixed_length=4, clause='PS3.7 D.3.3.3.1 Table D.3-7', fields=[
        ('f', 'item-type', 1, T), ('f', 'reserved', 1, R), ('f', 'item-length', 2, L),
        ('f', 'maximum-number-operations-invoked', 2, A('max_num_ops_invoked')),
        ('f', 'maximum-number-operations-performed', 2, A('max_num_ops_performed'))]),
    'ScpScuRoleSelectionSubItem': dict(type=0x54, clause='PS3.7 D.3.3.4.1 Table D.3-9', fields=[
        ('f', 'item-type', 1, T), ('f', 'reserved', 1, R), ('f', 'item-length', 2, L),
        ('f', 'UID-length', 2, LEN('sop_class_uid')), ('v', 'text', 'sop_class_uid'),
        ('f', 'SCU-role', 1, A('scu_role')), ('f', 'SCP-role', 1, A('scp_role'))]),
    'ImplementationVersionNameSubItem': dict(type=0x55, clause='PS3.7 D.3.3.2.3 Table D.3-3', fields=[
        ('f', 'item-type', 1, T), ('f', 'reserved', 1, R), ('f', 'item-length', 2, L),
        ('v', 'text', 'implementation_version_name')]),
    'SOPClassExtendedNegotiationSubItem': dict(type=0x56, clause='PS3.7 D.3.3.5.1 Table D.3-11', fields=[
        ('f', 'item-type', 1, T), ('f', 'reserved', 1, R), ('f', 'item-length', 2, L),
        ('f', 'SOP-class-uid-length', 2, LEN('sop_class_uid')), ('v', 'text', 'sop_class_uid'),
        ('v', 'bytes', 'app_info')]),
    'UserIdentityNegotiationSubItem': dict(type=0x58, clause='PS3.7 D.3.3.7.1 Table D.3-14', fields=[
        ('f', 'item-type', 1, T), ('f', 'reserved', 1, R), ('f', 'item-length', 2, L),
        ('f', 'user-identity-type', 1, A('user_identity_type')),
        ('f', 'positive-response-requested', 1, A('positive_response_req')),
        ('f', 'primary-field-length', 2, LEN('_primary_field')), ('v', 'bytes', '_primary_field'),
        ('f', 'secondary-field-length', 2, LEN('_secondary_field')), ('v', 'bytes', '_secondary_field')]),
    'UserIdentityNegotiationSubItemAc': dict(type=0x59, clause='PS3.7 D.3.3.7.2 Table D.3-15', fields=[
        ('f', 'item-type', 1, T), ('f', 'reserved', 1, R), ('f', 'item-length', 2, L),
        ('f', 'server-response-length', 2, LEN('server_response')), ('v', 'text', 'server_response')]),
    'GenericUserDataSubItem': dict(type='any', clause='PS3.8 9.3.2.3 (user-data sub-item of any other type)', fields=[
        ('f', 'item-type', 1, T), ('f', 'reserved', 1, R), ('f', 'item-length', 2, L), ('v', 'bytes', 'user_data')]),
}
assert len(LAYOUTS) == 23

# which item kinds may follow which container inside the enclosing structure (used by O7):
# after a presentation context item (RQ) only further presentation context items (20H) or the
# user information item (50H) may follow; a transfer syntax sub-item list is therefore closed by
# any type other than 40H.  Nothing constrains what follows the user information item.
FOLLOWERS = {
    'PresentationContextItemRQ.ts_sub_items': {0x20, 0x50},
}

# variable items allowed in A-ASSOCIATE-RQ/AC and the classes that carry them
VARIABLE_ITEM_TYPES = {0x10: 'ApplicationContextItem', 0x20: 'PresentationContextItemRQ',
                       0x21: 'PresentationContextItemAC', 0x50: 'UserInformationItem'}
SUB_ITEM_TYPES = {0x51: 'MaximumLengthSubItem', 0x52: 'ImplementationClassUIDSubItem',
                  0x53: 'AsynchronousOperationsWindowSubItem', 0x54: 'ScpScuRoleSelectionSubItem',
                  0x55: 'ImplementationVersionNameSubItem', 0x56: 'SOPClassExtendedNegotiationSubItem',
                  0x58: 'UserIdentityNegotiationSubItem', 0x59: 'UserIdentityNegotiationSubItemAc'}
