#!/usr/bin/env python3
"""mech_refactor.py <transform> <outdir>: write a mechanically refactored, behaviour-preserving copy of /repo/pynetdicom2.

Transforms (all purely syntactic and semantics-preserving for this package):
  unparse      re-print every module from its syntax tree (formatting, comments, line numbers change)
  rename       rename every local variable x (assigned names that are not parameters / globals / nonlocal) to x_v
  swapeq       a == b -> b == a, a != b -> b != a (for comparisons whose operands are both side-effect free names/attributes/constants)
  flipif       ``if not c: A else: B`` -> ``if c: B else: A`` and ``if c: A else: B`` (c a Name/Attribute) -> ``if not c: B else: A``
  logging      add ``import logging`` + a module logger and a debug call as first statement of every function
  yieldfrom    ``for x in it: yield x`` -> ``yield from it``
  fstring      '...{}...'.format(a, b) with plain positional fields -> f-string
  kwargs       positional arguments (after the first) of calls that resolve to a package function / class become keyword arguments
  cachelocal   in every method, a ``self.<field>`` read at least twice, where <field> is only ever assigned in constructors
               (and is no method / property / class attribute), is read once into a local at the top of the method
  structconst  struct.pack('<fmt>', ...) / struct.unpack('<fmt>', x) -> a module-level precompiled struct.Struct constant
  boolwrap     ``if x:`` / ``while x:`` on a name or attribute -> ``if bool(x):``
  renamepriv   every private function / method ``_x`` defined in the package is renamed ``_x_r`` (definition and every reference)
  absimports   ``from . import pdu`` -> ``import pynetdicom2.pdu as pdu``; ``from .x import y`` -> ``from pynetdicom2.x import y``
  aliasimports ``from . import pdu`` -> ``from . import pdu as pdu_mod`` with every ``pdu.`` reference renamed
  nosix        six.indexbytes(b, i) -> b[i]; six.iteritems(d) -> d.items(); six.moves.queue/range/zip -> queue / builtins;
               six.BytesIO / StringIO shims -> io.BytesIO; six.string_types -> (str,)
  reorder      methods of every class sorted by name (``__init__`` first); class attributes stay before them in their order
  annotate     every parameter annotated ``: 'object'`` style (string annotations), every function ``-> 'object'``
  tryfinally   every function body (except generators) wrapped in ``try: ... finally: <module logger>.debug('leaving')``
"""
import ast, copy, os, shutil, sys

SRC = os.path.join(os.environ.get('MECH_SRC', '/repo'), 'pynetdicom2')


class Rename(ast.NodeTransformer):
    def visit_FunctionDef(self, node):
        self.generic_visit(node)
        params = {a.arg for a in node.args.args + node.args.kwonlyargs + node.args.posonlyargs}
        if node.args.vararg: params.add(node.args.vararg.arg)
        if node.args.kwarg: params.add(node.args.kwarg.arg)
        skip = set(params)
        for n in ast.walk(node):
            if isinstance(n, (ast.Global, ast.Nonlocal)):
                skip.update(n.names)
        # names bound in nested functions / comprehensions are left alone (scoping)
        nested = [n for n in ast.walk(node) if n is not node and isinstance(n, (ast.FunctionDef, ast.Lambda, ast.ListComp, ast.GeneratorExp, ast.DictComp, ast.SetComp, ast.ClassDef))]
        nested_names = set()
        for nn in nested:
            for n in ast.walk(nn):
                if isinstance(n, ast.Name):
                    nested_names.add(n.id)
                if isinstance(n, ast.arg):
                    nested_names.add(n.arg)
        stores = {n.id for n in ast.walk(node) if isinstance(n, ast.Name) and isinstance(n.ctx, ast.Store)}
        for n in ast.walk(node):
            if isinstance(n, ast.ExceptHandler) and n.name:
                skip.add(n.name)
            if isinstance(n, (ast.Import, ast.ImportFrom)):
                for a in n.names:
                    skip.add((a.asname or a.name).split('.')[0])
            if isinstance(n, (ast.FunctionDef, ast.ClassDef)) and n is not node:
                skip.add(n.name)
        targets = {x for x in stores if x not in skip and x not in nested_names and x != '_' and not x.startswith('__')}
        for n in ast.walk(node):
            if isinstance(n, ast.Name) and n.id in targets:
                n.id = n.id + '_v'
        return node


def _pure(e):
    return all(isinstance(n, (ast.Name, ast.Attribute, ast.Constant, ast.Load, ast.Tuple)) for n in ast.walk(e))


class SwapEq(ast.NodeTransformer):
    def visit_Compare(self, node):
        self.generic_visit(node)
        if len(node.ops) == 1 and isinstance(node.ops[0], (ast.Eq, ast.NotEq)) and _pure(node.left) and _pure(node.comparators[0]):
            node.left, node.comparators = node.comparators[0], [node.left]
        return node


class FlipIf(ast.NodeTransformer):
    def visit_If(self, node):
        self.generic_visit(node)
        if node.orelse and not (len(node.orelse) == 1 and isinstance(node.orelse[0], ast.If)):
            t = node.test
            if isinstance(t, ast.UnaryOp) and isinstance(t.op, ast.Not):
                node.test, node.body, node.orelse = t.operand, node.orelse, node.body
            elif isinstance(t, (ast.Name, ast.Attribute)):
                node.test, node.body, node.orelse = ast.UnaryOp(op=ast.Not(), operand=t), node.orelse, node.body
        return node


class Logging(ast.NodeTransformer):
    def visit_FunctionDef(self, node):
        self.generic_visit(node)
        call = ast.Expr(value=ast.Call(func=ast.Attribute(value=ast.Name(id='_mech_logger', ctx=ast.Load()), attr='debug', ctx=ast.Load()),
                                       args=[ast.Constant(value='enter %s' % node.name)], keywords=[]))
        i = 1 if node.body and isinstance(node.body[0], ast.Expr) and isinstance(node.body[0].value, ast.Constant) and isinstance(node.body[0].value.value, str) else 0
        node.body.insert(i, call)
        return node


class YieldFrom(ast.NodeTransformer):
    def visit_For(self, node):
        self.generic_visit(node)
        if not node.orelse and len(node.body) == 1 and isinstance(node.body[0], ast.Expr) and isinstance(node.body[0].value, ast.Yield) \
                and isinstance(node.target, ast.Name) and isinstance(node.body[0].value.value, ast.Name) \
                and node.body[0].value.value.id == node.target.id:
            return ast.Expr(value=ast.YieldFrom(value=node.iter))
        return node


class FString(ast.NodeTransformer):
    def visit_Call(self, node):
        self.generic_visit(node)
        f = node.func
        if isinstance(f, ast.Attribute) and f.attr == 'format' and isinstance(f.value, ast.Constant) and isinstance(f.value.value, str) \
                and not node.keywords and node.args and all(_pure(a) for a in node.args):
            s = f.value.value
            parts = s.split('{}')
            if len(parts) == len(node.args) + 1 and '{' not in ''.join(parts) and '}' not in ''.join(parts):
                vals = []
                for p, a in zip(parts, node.args):
                    if p:
                        vals.append(ast.Constant(value=p))
                    vals.append(ast.FormattedValue(value=a, conversion=-1, format_spec=None))
                if parts[-1]:
                    vals.append(ast.Constant(value=parts[-1]))
                return ast.JoinedStr(values=vals)
        return node


class ElseReturn(ast.NodeTransformer):
    """``if c: ...; return x`` followed by the rest of the block  ->  ``if c: ...; return x  else: <rest>``"""
    def _block(self, body):
        out = []
        i = 0
        while i < len(body):
            st = body[i]
            if isinstance(st, ast.If) and not st.orelse and st.body and isinstance(st.body[-1], (ast.Return, ast.Raise, ast.Continue, ast.Break)) \
                    and i + 1 < len(body) and not any(isinstance(x, (ast.FunctionDef, ast.ClassDef)) for x in body[i + 1:]):
                st.orelse = self._block(body[i + 1:])
                out.append(st)
                return out
            out.append(st)
            i += 1
        return out

    def visit_FunctionDef(self, node):
        self.generic_visit(node)
        node.body = self._block(node.body)
        return node


class IfExpForm(ast.NodeTransformer):
    def visit_If(self, node):
        self.generic_visit(node)
        if len(node.body) == 1 and len(node.orelse) == 1 and isinstance(node.body[0], ast.Assign) and isinstance(node.orelse[0], ast.Assign) \
                and len(node.body[0].targets) == 1 and ast.unparse(node.body[0].targets[0]) == ast.unparse(node.orelse[0].targets[0]):
            return ast.Assign(targets=node.body[0].targets, value=ast.IfExp(test=node.test, body=node.body[0].value, orelse=node.orelse[0].value))
        return node


class AugExpand(ast.NodeTransformer):
    def visit_AugAssign(self, node):
        if isinstance(node.target, ast.Name) and isinstance(node.op, (ast.Add, ast.Sub)):
            return ast.Assign(targets=[ast.Name(id=node.target.id, ctx=ast.Store())],
                              value=ast.BinOp(left=ast.Name(id=node.target.id, ctx=ast.Load()), op=node.op, right=node.value))
        return node


class TmpVar(ast.NodeTransformer):
    """``f(g(x), y)`` as a statement -> ``tmp = g(x); f(tmp, y)`` when g(x) is the first argument (evaluated first anyway)"""
    n = 0

    def _split(self, st, call):
        if call.args and isinstance(call.args[0], ast.Call) and _pure(call.func) and not isinstance(call.func, ast.Call):
            TmpVar.n += 1
            name = 'tmp_arg_%d' % TmpVar.n
            asg = ast.Assign(targets=[ast.Name(id=name, ctx=ast.Store())], value=call.args[0])
            call.args[0] = ast.Name(id=name, ctx=ast.Load())
            return [asg, st]
        return [st]

    def _block(self, body):
        out = []
        for st in body:
            for fld in ('body', 'orelse', 'finalbody'):
                v = getattr(st, fld, None)
                if isinstance(v, list) and v and isinstance(v[0], ast.stmt):
                    setattr(st, fld, self._block(v))
            if isinstance(st, ast.Try):
                for h in st.handlers:
                    h.body = self._block(h.body)
            if isinstance(st, ast.Expr) and isinstance(st.value, ast.Call):
                out.extend(self._split(st, st.value))
            elif isinstance(st, ast.Assign) and isinstance(st.value, ast.Call):
                out.extend(self._split(st, st.value))
            else:
                out.append(st)
        return out

    def visit_FunctionDef(self, node):
        for ch in node.body:
            if isinstance(ch, (ast.FunctionDef, ast.ClassDef)):
                self.visit(ch)
        node.body = self._block(node.body)
        return node


def _package_index():
    """(signatures, final fields): {(module, name): [positional parameter names]} for module-level functions and classes with
    an own __init__ (no *args/**kwargs/keyword-only), module import aliases per module, and the instance fields that are only
    assigned in __init__ methods and are not defined as anything at class level"""
    sigs, imports, trees = {}, {}, {}
    stored_outside, stored_init, class_level = set(), set(), set()
    for fn in sorted(os.listdir(SRC)):
        if not fn.endswith('.py'):
            continue
        mod = fn[:-3]
        tree = ast.parse(open(os.path.join(SRC, fn)).read())
        trees[mod] = tree
        imp = {}
        for st in tree.body:
            if isinstance(st, ast.ImportFrom) and st.level >= 1 and st.module is None:
                for a in st.names:
                    imp[a.asname or a.name] = ('module', a.name)
            elif isinstance(st, ast.ImportFrom) and (st.level >= 1 or (st.module or '').startswith('pynetdicom2')):
                m2 = (st.module or '').split('.')[-1]
                for a in st.names:
                    imp[a.asname or a.name] = ('name', m2, a.name)
        imports[mod] = imp

        def sig(fdef, drop):
            a = fdef.args
            if a.vararg or a.kwarg or a.kwonlyargs or a.posonlyargs:
                return None
            if any(not isinstance(d, ast.Name) or d.id not in ('staticmethod',) for d in fdef.decorator_list):
                return None
            return [x.arg for x in a.args][drop:]
        for st in tree.body:
            if isinstance(st, ast.FunctionDef):
                sg = sig(st, 0)
                if sg is not None:
                    sigs[(mod, st.name)] = sg
            elif isinstance(st, ast.ClassDef):
                for b in st.body:
                    if isinstance(b, ast.FunctionDef):
                        class_level.add(b.name)
                        if b.name == '__init__':
                            sg = sig(b, 1)
                            if sg is not None:
                                sigs[(mod, st.name)] = sg
                    elif isinstance(b, (ast.Assign, ast.AnnAssign)):
                        for t in (b.targets if isinstance(b, ast.Assign) else [b.target]):
                            if isinstance(t, ast.Name):
                                class_level.add(t.id)
        for f in ast.walk(tree):
            if isinstance(f, ast.FunctionDef):
                for n in ast.walk(f):
                    if isinstance(n, ast.Attribute) and isinstance(n.ctx, (ast.Store, ast.Del)):
                        (stored_init if f.name == '__init__' and isinstance(n.value, ast.Name) and n.value.id == 'self'
                         else stored_outside).add(n.attr)
                    elif isinstance(n, ast.Call) and isinstance(n.func, ast.Name) and n.func.id in ('setattr', 'delattr'):
                        stored_outside.add(n.args[1].value if len(n.args) > 1 and isinstance(n.args[1], ast.Constant) else '*')
        for n in ast.walk(tree):
            if isinstance(n, ast.Attribute) and isinstance(n.ctx, (ast.Store, ast.Del)) and not any(
                    True for _ in ()):
                pass
    final = {a for a in stored_init if a not in stored_outside and a not in class_level}
    return sigs, imports, final


class KwArgs(ast.NodeTransformer):
    def __init__(self, mod, sigs, imports):
        self.mod, self.sigs, self.imp = mod, sigs, imports.get(mod, {})
        self.local_stack = []

    def visit_FunctionDef(self, node):
        bound = {a.arg for a in node.args.args} | {n.id for n in ast.walk(node) if isinstance(n, ast.Name) and isinstance(n.ctx, ast.Store)}
        self.local_stack.append(bound)
        self.generic_visit(node)
        self.local_stack.pop()
        return node

    def _sig(self, fn):
        shadow = set().union(*self.local_stack) if self.local_stack else set()
        if isinstance(fn, ast.Name):
            if fn.id in shadow:
                return None
            if (self.mod, fn.id) in self.sigs:
                return self.sigs[(self.mod, fn.id)]
            i = self.imp.get(fn.id)
            if i and i[0] == 'name':
                return self.sigs.get((i[1], i[2]))
        elif isinstance(fn, ast.Attribute) and isinstance(fn.value, ast.Name) and fn.value.id not in shadow:
            i = self.imp.get(fn.value.id)
            if i and i[0] == 'module':
                return self.sigs.get((i[1], fn.attr))
        return None

    def visit_Call(self, node):
        self.generic_visit(node)
        sg = self._sig(node.func)
        if sg is None or any(isinstance(a, ast.Starred) for a in node.args) or any(k.arg is None for k in node.keywords):
            return node
        if len(node.args) < 2 or len(node.args) > len(sg):
            return node
        extra = [ast.keyword(arg=sg[i], value=a) for i, a in enumerate(node.args) if i >= 1]
        node.args = node.args[:1]
        node.keywords = extra + node.keywords
        return node


class CacheLocal(ast.NodeTransformer):
    def __init__(self, final):
        self.final = final

    def visit_ClassDef(self, node):
        for i, b in enumerate(node.body):
            if isinstance(b, ast.FunctionDef) and b.name != '__init__' and b.args.args and b.args.args[0].arg == 'self' \
                    and not b.decorator_list:
                self._method(b)
        return node

    def _method(self, f):
        own = []

        def walk(n):
            for ch in ast.iter_child_nodes(n):
                if isinstance(ch, (ast.FunctionDef, ast.Lambda, ast.ClassDef, ast.GeneratorExp)):
                    continue
                own.append(ch)
                walk(ch)
        walk(f)
        if any(isinstance(n, ast.Name) and n.id == 'self' and isinstance(n.ctx, ast.Store) for n in own):
            return
        reads = {}
        for n in own:
            if isinstance(n, ast.Attribute) and isinstance(n.ctx, ast.Load) and isinstance(n.value, ast.Name) and n.value.id == 'self' \
                    and n.attr in self.final:
                reads.setdefault(n.attr, []).append(n)
        names = {n.id for n in ast.walk(f) if isinstance(n, ast.Name)} | {a.arg for a in f.args.args}
        pre = []
        for attr, nodes in sorted(reads.items()):
            if len(nodes) < 2:
                continue
            loc = attr.lstrip('_') + '_cached'
            if loc in names:
                continue
            pre.append(ast.Assign(targets=[ast.Name(id=loc, ctx=ast.Store())],
                                  value=ast.Attribute(value=ast.Name(id='self', ctx=ast.Load()), attr=attr, ctx=ast.Load())))
            ids = {id(n) for n in nodes}

            class R(ast.NodeTransformer):
                def visit_FunctionDef(self_, n):
                    return n if n is not f else self_.generic_visit(n)

                def visit_Lambda(self_, n):
                    return n

                def visit_GeneratorExp(self_, n):
                    return n

                def visit_Attribute(self_, n):
                    if id(n) in ids:
                        return ast.Name(id=loc, ctx=ast.Load())
                    return self_.generic_visit(n)
            R().visit(f)
        if pre:
            i = 1 if f.body and isinstance(f.body[0], ast.Expr) and isinstance(f.body[0].value, ast.Constant) else 0
            f.body[i:i] = pre


class StructConst(ast.NodeTransformer):
    def __init__(self):
        self.consts = {}

    def visit_Call(self, node):
        self.generic_visit(node)
        fn = node.func
        if isinstance(fn, ast.Attribute) and isinstance(fn.value, ast.Name) and fn.value.id == 'struct' \
                and fn.attr in ('pack', 'unpack') and node.args and isinstance(node.args[0], ast.Constant) \
                and isinstance(node.args[0].value, str) and not node.keywords:
            fmt = node.args[0].value
            name = self.consts.setdefault(fmt, '_MECH_STRUCT_%d' % len(self.consts))
            return ast.Call(func=ast.Attribute(value=ast.Name(id=name, ctx=ast.Load()), attr=fn.attr, ctx=ast.Load()),
                            args=node.args[1:], keywords=[])
        return node


class BoolWrap(ast.NodeTransformer):
    def _wrap(self, t):
        if isinstance(t, (ast.Name, ast.Attribute)):
            return ast.Call(func=ast.Name(id='bool', ctx=ast.Load()), args=[t], keywords=[])
        if isinstance(t, ast.UnaryOp) and isinstance(t.op, ast.Not):
            t.operand = self._wrap(t.operand)
        return t

    def visit_If(self, node):
        self.generic_visit(node)
        node.test = self._wrap(node.test)
        return node
    visit_While = visit_If


def _private_defs():
    names = set()
    for fn in sorted(os.listdir(SRC)):
        if fn.endswith('.py'):
            tree = ast.parse(open(os.path.join(SRC, fn)).read())
            for n in ast.walk(tree):
                if isinstance(n, (ast.FunctionDef, ast.AsyncFunctionDef)) and n.name.startswith('_') and not n.name.startswith('__'):
                    names.add(n.name)
    return names


class RenamePriv(ast.NodeTransformer):
    def __init__(self, names):
        self.names = names

    def visit_FunctionDef(self, node):
        self.generic_visit(node)
        if node.name in self.names:
            node.name += '_r'
        return node

    def visit_Attribute(self, node):
        self.generic_visit(node)
        if node.attr in self.names:
            node.attr += '_r'
        return node

    def visit_Name(self, node):
        if node.id in self.names:
            node.id += '_r'
        return node

    def visit_alias(self, node):
        if node.name in self.names:
            node.name += '_r'
        return node


PKGMODS = None


def _pkgmods():
    global PKGMODS
    if PKGMODS is None:
        PKGMODS = {fn[:-3] for fn in os.listdir(SRC) if fn.endswith('.py')}
    return PKGMODS


class AbsImports(ast.NodeTransformer):
    def visit_ImportFrom(self, node):
        if node.level == 1 and node.module is None:
            out = []
            for a in node.names:
                if a.name in _pkgmods():
                    out.append(ast.Import(names=[ast.alias(name='pynetdicom2.' + a.name, asname=a.asname or a.name)]))
                else:
                    out.append(ast.ImportFrom(module='pynetdicom2', names=[a], level=0))
            return out
        if node.level == 1 and node.module:
            return ast.ImportFrom(module='pynetdicom2.' + node.module, names=node.names, level=0)
        return node


class AliasImports(ast.NodeTransformer):
    def __init__(self):
        self.map = {}

    def visit_Module(self, node):
        for st in node.body:
            if isinstance(st, ast.ImportFrom) and st.level == 1 and st.module is None:
                for a in st.names:
                    if a.name in _pkgmods():
                        old = a.asname or a.name
                        a.asname = old + '_mod'
                        self.map[old] = old + '_mod'
        # names bound elsewhere with the same spelling (parameters, locals) must not be touched
        shadow = set()
        for n in ast.walk(node):
            if isinstance(n, ast.arg) and n.arg in self.map:
                shadow.add(n.arg)
            if isinstance(n, ast.Name) and isinstance(n.ctx, ast.Store) and n.id in self.map:
                shadow.add(n.id)
        for k in shadow:
            # give up on that module alias: restore
            for st in node.body:
                if isinstance(st, ast.ImportFrom) and st.level == 1 and st.module is None:
                    for a in st.names:
                        if a.asname == self.map[k]:
                            a.asname = k if k != a.name else None
            del self.map[k]
        self.generic_visit(node)
        return node

    def visit_Name(self, node):
        if node.id in self.map and isinstance(node.ctx, ast.Load):
            node.id = self.map[node.id]
        return node


class NoSix(ast.NodeTransformer):
    def visit_Call(self, node):
        self.generic_visit(node)
        f = ast.unparse(node.func)
        if f == 'six.indexbytes' and len(node.args) == 2:
            return ast.Subscript(value=node.args[0], slice=node.args[1], ctx=ast.Load())
        if f in ('six.iteritems', 'six.itervalues', 'six.iterkeys') and len(node.args) == 1:
            return ast.Call(func=ast.Attribute(value=node.args[0], attr=f[8:], ctx=ast.Load()), args=[], keywords=[])
        return node

    def visit_Attribute(self, node):
        self.generic_visit(node)
        t = ast.unparse(node)
        if t == 'six.string_types':
            return ast.Tuple(elts=[ast.Name(id='str', ctx=ast.Load())], ctx=ast.Load())
        if t in ('six.BytesIO', 'six.moves.cStringIO'):
            return ast.Attribute(value=ast.Name(id='io', ctx=ast.Load()), attr='BytesIO', ctx=ast.Load())
        if t == 'six.moves.socketserver':
            return ast.Name(id='socketserver', ctx=ast.Load())
        if t == 'six.moves.zip':
            return ast.Name(id='zip', ctx=ast.Load())
        if t == 'six.moves.range':
            return ast.Name(id='range', ctx=ast.Load())
        return node

    def visit_ImportFrom(self, node):
        if node.module == 'six.moves':
            out = []
            for a in node.names:
                if a.name in ('range', 'zip', 'map', 'filter'):
                    continue
                out.append(ast.Import(names=[ast.alias(name=a.name, asname=a.asname)]))
            return out or None
        return node


class Reorder(ast.NodeTransformer):
    def visit_ClassDef(self, node):
        self.generic_visit(node)
        first = []
        i = 0
        # everything up to the last non-function statement keeps its place (class attributes may refer to earlier functions)
        last_non = max([k for k, st in enumerate(node.body) if not isinstance(st, (ast.FunctionDef, ast.AsyncFunctionDef))] or [-1])
        head, tail = node.body[:last_non + 1], node.body[last_non + 1:]
        # property setters must follow their getter: keep (getter, setter...) groups together
        groups = {}
        order = []
        for st in tail:
            key = st.name
            groups.setdefault(key, []).append(st)
            if key not in order:
                order.append(key)
        order.sort(key=lambda n: (n != '__init__', n))
        node.body = head + [st for k in order for st in groups[k]]
        return node


class Annotate(ast.NodeTransformer):
    def visit_FunctionDef(self, node):
        self.generic_visit(node)
        for a in node.args.args + node.args.kwonlyargs:
            if a.annotation is None and a.arg not in ('self', 'cls'):
                a.annotation = ast.Constant(value='object')
        if node.returns is None:
            node.returns = ast.Constant(value='object')
        return node


class TryFinally(ast.NodeTransformer):
    def visit_FunctionDef(self, node):
        self.generic_visit(node)
        if any(isinstance(n, (ast.Yield, ast.YieldFrom)) for n in ast.walk(node)):
            return node
        body = node.body
        doc = []
        if body and isinstance(body[0], ast.Expr) and isinstance(body[0].value, ast.Constant) and isinstance(body[0].value.value, str):
            doc, body = body[:1], body[1:]
        if not body:
            return node
        fin = ast.parse("_mech_logger.debug('leaving %s', %r)" % ('%s', node.name)).body
        node.body = doc + [ast.Try(body=body, handlers=[], orelse=[], finalbody=fin)]
        return node


def main():
    tr, out = sys.argv[1], sys.argv[2]
    index = _package_index() if tr in ('kwargs', 'cachelocal', 'all2') else None
    dst = os.path.join(out, 'pynetdicom2')
    if os.path.exists(dst):
        shutil.rmtree(dst)
    os.makedirs(dst)
    for fn in sorted(os.listdir(SRC)):
        p = os.path.join(SRC, fn)
        if not fn.endswith('.py'):
            continue
        src = open(p).read()
        tree = ast.parse(src)
        if tr == 'rename':
            tree = Rename().visit(tree)
        elif tr == 'swapeq':
            tree = SwapEq().visit(tree)
        elif tr == 'flipif':
            tree = FlipIf().visit(tree)
        elif tr == 'logging':
            tree = Logging().visit(tree)
            i = 0
            while i < len(tree.body) and (isinstance(tree.body[i], (ast.Import, ast.ImportFrom)) or
                                          (isinstance(tree.body[i], ast.Expr) and isinstance(tree.body[i].value, ast.Constant))):
                i += 1
            tree.body[i:i] = ast.parse('import logging as _mech_logging\n_mech_logger = _mech_logging.getLogger(__name__)\n').body
        elif tr == 'yieldfrom':
            tree = YieldFrom().visit(tree)
        elif tr == 'fstring':
            tree = FString().visit(tree)
        elif tr == 'elsereturn':
            tree = ElseReturn().visit(tree)
        elif tr == 'ifexp':
            tree = IfExpForm().visit(tree)
        elif tr == 'augexpand':
            tree = AugExpand().visit(tree)
        elif tr == 'tmpvar':
            tree = TmpVar().visit(tree)
        elif tr == 'kwargs':
            tree = KwArgs(fn[:-3], index[0], index[1]).visit(tree)
        elif tr == 'cachelocal':
            tree = CacheLocal(index[2]).visit(tree)
        elif tr in ('structconst', 'all2'):
            if tr == 'all2':
                tree = KwArgs(fn[:-3], index[0], index[1]).visit(tree)
                tree = CacheLocal(index[2]).visit(tree)
                tree = BoolWrap().visit(tree)
            sc = StructConst()
            tree = sc.visit(tree)
            if sc.consts:
                i = max(k for k, st in enumerate(tree.body) if isinstance(st, (ast.Import, ast.ImportFrom))) + 1
                tree.body[i:i] = [ast.Assign(targets=[ast.Name(id=nm, ctx=ast.Store())],
                                             value=ast.Call(func=ast.Attribute(value=ast.Name(id='struct', ctx=ast.Load()), attr='Struct', ctx=ast.Load()),
                                                            args=[ast.Constant(value=fmt)], keywords=[]))
                                  for fmt, nm in sc.consts.items()]
        elif tr == 'boolwrap':
            tree = BoolWrap().visit(tree)
        elif tr == 'renamepriv':
            tree = RenamePriv(_private_defs()).visit(tree)
        elif tr == 'absimports':
            tree = AbsImports().visit(tree)
        elif tr == 'aliasimports':
            tree = AliasImports().visit(tree)
        elif tr == 'nosix':
            tree = NoSix().visit(tree)
            if 'io.BytesIO' in ast.unparse(tree) and not any(isinstance(st, ast.Import) and any(a.name == 'io' for a in st.names) for st in tree.body):
                tree.body.insert(1 if isinstance(tree.body[0], ast.Expr) else 0, ast.Import(names=[ast.alias(name='io', asname=None)]))
            if 'socketserver' in ast.unparse(tree) and fn in ('asceprovider.py', 'applicationentity.py'):
                tree.body.insert(2, ast.Import(names=[ast.alias(name='socketserver', asname=None)]))
        elif tr == 'reorder':
            tree = Reorder().visit(tree)
        elif tr == 'annotate':
            tree = Annotate().visit(tree)
        elif tr == 'tryfinally':
            tree = TryFinally().visit(tree)
            i = 0
            while i < len(tree.body) and (isinstance(tree.body[i], (ast.Import, ast.ImportFrom)) or
                                          (isinstance(tree.body[i], ast.Expr) and isinstance(tree.body[i].value, ast.Constant))):
                i += 1
            tree.body[i:i] = ast.parse('import logging as _mech_logging\n_mech_logger = _mech_logging.getLogger(__name__)\n').body
        elif tr == 'all':
            for T in (Rename, SwapEq, FlipIf, ElseReturn, IfExpForm, YieldFrom, FString, TmpVar):
                tree = T().visit(tree)
                ast.fix_missing_locations(tree)
        elif tr != 'unparse':
            raise SystemExit('unknown transform ' + tr)
        ast.fix_missing_locations(tree)
        text = ast.unparse(tree) + '\n'
        compile(text, fn, 'exec')
        open(os.path.join(dst, fn), 'w').write(text)


if __name__ == '__main__':
    main()
