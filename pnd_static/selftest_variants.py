"""Variant table for selftest.py: one line per edit.  V(property, name, file, old, new, expect, count, rule)"""
from .selftest import Variant as V

VARIANTS = [
    # ---- C06
    V('C06', 'width -6 -> -5 (bytes)', 'dimsemessages.py', "    maxsize = max_pdu_length - 6\n    for chunk", "    maxsize = max_pdu_length - 5\n    for chunk", rule='C06.S1'),
    V('C06', 'width -6 -> -7 (file)', 'dimsemessages.py', "    maxsize = max_pdu_length - 6\n    while True", "    maxsize = max_pdu_length - 7\n    while True", rule='C06.S1'),
    V('C06', 'chunks < -> <=', 'dimsemessages.py', "(pos + size < length)", "(pos + size <= length)", rule='C06.S3'),
    V('C06', 'chunks stride', 'dimsemessages.py', "range(0, length, size)", "range(0, length, size + 1)", rule='C06.S2'),
    V('C06', 'command flags swapped', 'dimsemessages.py', "max_pdu_length, 1, 3)", "max_pdu_length, 3, 1)", rule='C06.S4'),
    V('C06', 'data flags wrong', 'dimsemessages.py', "gen = fragment(self.data_set, max_pdu_length, 0, 2)", "gen = fragment(self.data_set, max_pdu_length, 1, 2)", rule='C06.S4'),
    V('C06', 'constant context id', 'dimsemessages.py', "pdu.PresentationDataValueItem(pc_id, struct.pack('b', bit) + item)\n            yield pdu.PDataTfPDU([value_item])\n\n", "pdu.PresentationDataValueItem(1, struct.pack('b', bit) + item)\n            yield pdu.PDataTfPDU([value_item])\n\n", rule='C06.S5'),
    V('C06', 'file: no push back', 'dimsemessages.py', "        if has_next:\n            fp.seek(-1, 1)\n", "        if has_next:\n            pass\n", rule='C06.S3'),
    V('C06', 'flag mapping inverted', 'dimsemessages.py', "        yield chunk, normal if has_next else last\n\n\ndef fragment_file", "        yield chunk, last if has_next else normal\n\n\ndef fragment_file", rule='C06.S4'),
    V('C06', 'send passes ae limit', 'asceprovider.py', "dimse_msg.encode(pc_id, self.max_pdu_length)", "dimse_msg.encode(pc_id, self.ae.max_pdu_length)", rule='C06.S7'),
    V('C06', 'silent: x < y -> y > x', 'dimsemessages.py', "(pos + size < length)", "(length > pos + size)", expect='silent'),
    V('C06', 'silent: rename local', 'dimsemessages.py', "    maxsize = max_pdu_length - 6\n    for chunk, has_next in chunks(data_set, maxsize):", "    width = max_pdu_length - 6\n    for chunk, has_next in chunks(data_set, width):", expect='silent'),
    # ---- C07
    V('C07', 'completion or -> and', 'fsm.py', "if no_ds or self.data_set_received:", "if no_ds and self.data_set_received:", rule='C07.D3'),
    V('C07', 'last command marker 3 -> 1', 'fsm.py', "                    if marker == 3:", "                    if marker == 1:", rule='C07.D3'),
    V('C07', 'data completion ignores command', 'fsm.py', "                        if self.command_set_received:\n                            self.receiving = False", "                        if True:\n                            self.receiving = False", rule='C07.D3'),
    V('C07', 'strip two bytes', 'fsm.py', "self._encoded_data_set.append(value_item.data_value[1:])", "self._encoded_data_set.append(value_item.data_value[2:])", rule='C07.D2'),
    V('C07', 'delivery guard inverted', 'fsm.py', "        if not self.dimse_decoder.receiving:", "        if self.dimse_decoder.receiving:", count=2, rule='C07.D4'),
    V('C07', 'no decoder reset', 'fsm.py', "            self.to_service_user.put((msg, pc_id))\n            self.dimse_decoder = None", "            self.to_service_user.put((msg, pc_id))", count=2, rule='C07.D4'),
    V('C07', 'MESSAGE_TYPE wrong class', 'dimsemessages.py', "    0x8001: CStoreRSPMessage,", "    0x8001: CStoreRQMessage,", rule='C07.D5'),
    V('C07', 'extra marker accepted', 'fsm.py', "elif marker in (0, 2):", "elif marker in (0, 2, 4):", rule='C07.D1'),
    V('C07', 'file not rewound to start', 'fsm.py', "self._dataset_fp.seek(self._start)", "self._dataset_fp.seek(0)", rule='C07.D6'),
    V('C07', 'no_ds compared with wrong constant', 'fsm.py', ".value == 0x0101", ".value == 0x0001", rule='C07.D5'),
    V('C07', 'silent: marker tuple as list', 'fsm.py', "if marker in (1, 3):", "if marker in [1, 3]:", expect='silent'),
    # ---- C18
    V('C18', 'range end exclusive', 'statuses.py', "code_range = range(code, end + 1)", "code_range = range(code, end)", rule='C18.W1'),
    V('C18', 'general/specific swapped', 'statuses.py', "    if command is None:\n        for _code in code_range:\n            _general_status_dict[_code] = status", "    if command is not None:\n        for _code in code_range:\n            _general_status_dict[_code] = status"),
    V('C18', 'lookup prefers general', 'statuses.py', "        if command:\n            status = _status_dict.get((command.command_field, value))\n        if not status:\n            status = _general_status_dict.get(value, UNKNOWN)", "        status = _general_status_dict.get(value)\n        if not status and command:\n            status = _status_dict.get((command.command_field, value))\n        if not status:\n            status = UNKNOWN", rule='C18.W2'),
    V('C18', 'UNKNOWN is a warning', 'statuses.py', "UNKNOWN = s('Failure', 'Unknown Status')", "UNKNOWN = s('Warning', 'Unknown Status')", rule='C18.W3'),
    V('C18', 'FF01 not pending', 'statuses.py', "(0xFF01, 'Pending',", "(0xFF01, 'Warning',", rule='C18.W3'),
    V('C18', 'typo in a type', 'statuses.py', "(0x0213, 'Failure', 'Resource Limitation', None),", "(0x0213, 'Failed', 'Resource Limitation', None),", rule='C18.W3'),
    V('C18', 'two flags share a literal', 'statuses.py', "self.is_cancel = self.status_type == 'Cancel'", "self.is_cancel = self.status_type == 'Failure'", rule='C18.W2'),
    V('C18', 'int returns type', 'statuses.py', "        return int(self._value)", "        return int(self._value) & 0xFF", rule='C18.W2'),
    V('C18', 'register swaps end and code', 'statuses.py', "add_status(code, code_type, desc, end, command)", "add_status(end, code_type, desc, code, command)", rule='C18.W1'),
    V('C18', 'success row removed', 'statuses.py', "    (0x0000, 'Success', '', None),\n", "", rule='C18.W3'),
    V('C18', 'silent: reorder two rows', 'statuses.py', "    (0x0105, 'Failure', 'No Such Attribute', None),\n    (0x0106, 'Failure', 'Invalid Attribute Value', None),\n", "    (0x0106, 'Failure', 'Invalid Attribute Value', None),\n    (0x0105, 'Failure', 'No Such Attribute', None),\n", expect='silent'),
    V('C18', 'silent: description edit', 'statuses.py', "'Refused: Move Destination unknown', dimse.CMoveRSPMessage),", "'Refused: Move destination unknown', dimse.CMoveRSPMessage),", expect='silent'),
]
