"""Path-sensitive (disjunctive) forward data-flow over structured control flow.

The package under analysis uses only structured statements (no goto-like
constructs), so instead of building an explicit graph the engine interprets the
statement tree over *sets of abstract states*: every statement maps a set of
states to outcome sets ``fall / return / raise / break / continue``.  Loops are
solved to a fix-point of the state set at the loop head; ``try`` statements get
exception edges from every statement of the body that the client says may raise
to the matching handlers (matching uses the exception hierarchy: yes / no /
maybe); ``finally`` bodies are run on every outcome.

The abstract domain is supplied by a :class:`Client`; states must be hashable
and the domain finite for functions with loops (checked by an iteration cap).
Nothing is executed and no solver is involved: infeasible paths are only pruned
where a client refines states on branch conditions it understands.
"""
from __future__ import annotations

import ast
from typing import Any, Dict, Iterable, List, Optional, Set, Tuple

from .srcmodel import AnalysisError

BUILTIN_EXC_PARENTS = {
    'BaseException': None,
    'Exception': 'BaseException',
    'LookupError': 'Exception', 'KeyError': 'LookupError', 'IndexError': 'LookupError',
    'ValueError': 'Exception', 'UnicodeDecodeError': 'ValueError', 'UnicodeError': 'ValueError',
    'UnicodeEncodeError': 'ValueError',
    'TypeError': 'Exception', 'AttributeError': 'Exception', 'StopIteration': 'Exception',
    'OSError': 'Exception', 'IOError': 'Exception', 'socket.error': 'Exception',
    'socket.timeout': 'OSError', 'ConnectionError': 'OSError',
    'struct.error': 'Exception', 'queue.Empty': 'Exception', 'queue.Full': 'Exception',
    'RuntimeError': 'Exception', 'NotImplementedError': 'RuntimeError',
    'ArithmeticError': 'Exception', 'ZeroDivisionError': 'ArithmeticError',
    'OverflowError': 'ArithmeticError', 'AssertionError': 'Exception',
    'MemoryError': 'Exception', 'EOFError': 'Exception', 'NameError': 'Exception',
    'UnboundLocalError': 'NameError', 'GeneratorExit': 'BaseException',
    'KeyboardInterrupt': 'BaseException', 'SystemExit': 'BaseException',
}
# aliases (same class object in Python 3)
EXC_ALIAS = {'socket.error': 'OSError', 'IOError': 'OSError', 'EnvironmentError': 'OSError',
             'select.error': 'OSError'}


class ExcHierarchy:
    def __init__(self, extra: Optional[Dict[str, str]] = None):
        self.parents = dict(BUILTIN_EXC_PARENTS)
        if extra:
            self.parents.update(extra)

    def canon(self, n: str) -> str:
        return EXC_ALIAS.get(n, n)

    def ancestors(self, n: str) -> List[str]:
        n = self.canon(n)
        out = [n]
        seen = {n}
        while True:
            p = self.parents.get(n)
            if p is None or p in seen:
                break
            p = self.canon(p)
            out.append(p)
            seen.add(p)
            n = p
        if n not in self.parents and out[-1] != 'Exception':
            # unknown class: assume a plain Exception subclass
            out.extend(['Exception', 'BaseException'])
        return out

    def catches(self, handler: Optional[str], raised: str) -> str:
        """Does ``except handler`` catch an exception known to be *some*
        instance of class ``raised`` (possibly of a subclass)?"""
        if handler is None:
            return 'yes'
        handler = self.canon(handler)
        raised = self.canon(raised)
        if handler in self.ancestors(raised):
            return 'yes'
        if raised in self.ancestors(handler):
            return 'maybe'  # raised is a super-class: instance may or may not match
        return 'no'


class Outcomes:
    __slots__ = ('fall', 'ret', 'exc', 'brk', 'cont')

    def __init__(self):
        self.fall: Set[Any] = set()
        self.ret: Set[Tuple[Any, Any]] = set()   # (state, return node id)
        self.exc: Set[Tuple[Any, str]] = set()   # (state, exception class name)
        self.brk: Set[Any] = set()
        self.cont: Set[Any] = set()

    def absorb(self, o: 'Outcomes', fall=False):
        if fall:
            self.fall |= o.fall
        self.ret |= o.ret
        self.exc |= o.exc
        self.brk |= o.brk
        self.cont |= o.cont


class Client:
    """Abstract domain plugged into :class:`Flow`."""
    hierarchy = ExcHierarchy()
    loop_cap = 200

    # -- transfer functions -------------------------------------------------
    def stmt(self, st: ast.stmt, state) -> Iterable[Any]:
        return [state]

    def expr(self, e: ast.expr, state) -> Iterable[Any]:
        """Effect of evaluating an expression outside a simple statement
        (conditions, iterables, return values, with-items)."""
        return [state]

    def atom_branch(self, test: ast.expr, state) -> Tuple[Iterable[Any], Iterable[Any]]:
        ss = list(self.expr(test, state))
        return ss, ss

    def raises(self, node: ast.AST, state) -> Iterable[str]:
        """Exception classes that executing this simple statement / evaluating
        this expression may raise (state is the state *before* it)."""
        return []

    def loop_bind(self, st: ast.For, state) -> Iterable[Any]:
        return [state]

    def raises_iter(self, st: ast.For, state) -> Iterable[str]:
        """Exceptions raised by advancing the iterator of a for loop."""
        return []

    def loop_exhausted(self, st: ast.For, state) -> Iterable[Any]:
        return [state]

    def unroll_items(self, st: ast.For, state) -> Optional[List[Any]]:
        """the items of a for loop over a small constant sequence (then the loop is unrolled), else None"""
        return None

    def bind_item(self, st: ast.For, state, item) -> Iterable[Any]:
        return [state]

    def loop_enter(self, st, state) -> Iterable[Any]:
        return [state]

    def back_edge(self, st, state) -> Iterable[Any]:
        """Widening hook applied to states flowing back to a loop head."""
        return [state]

    def after_finally(self, returning, after):
        """state with which a ``return`` proceeds once the finally block ran (``returning`` is the state at the return
        statement, ``after`` the one at the end of the finally block): clients that keep the returned value in the state
        carry it over."""
        return after

    def loop_leave(self, st, state) -> Iterable[Any]:
        """Applied to every state that leaves a loop normally (test false, exhausted, break)."""
        return [state]

    def handler_bind(self, h: ast.ExceptHandler, state, exc: str) -> Iterable[Any]:
        return [state]

    def with_enter(self, item: ast.withitem, state) -> Iterable[Any]:
        return self.expr(item.context_expr, state)

    def with_exit(self, st: ast.With, state, exceptional: bool) -> Iterable[Any]:
        return [state]

    def on_return(self, st: ast.Return, state) -> Iterable[Any]:
        if st.value is not None:
            return self.expr(st.value, state)
        return [state]

    def exc_name(self, e: Optional[ast.expr]) -> Optional[str]:
        if e is None:
            return None
        if isinstance(e, ast.Call):
            e = e.func
        if isinstance(e, ast.Name):
            return e.id
        if isinstance(e, ast.Attribute):
            base = e.value
            if isinstance(base, ast.Name) and base.id in ('exceptions',):
                return e.attr
            return ast.unparse(e)
        return 'Exception'

    def nested_def(self, st, state) -> Iterable[Any]:
        return [state]

    def take_pending(self) -> Set[Tuple[Any, str]]:
        """Exceptional outcomes produced *inside* a transfer function (e.g. by an
        inlined callee), collected by the engine after each transfer call."""
        p = getattr(self, '_pending_exc', None)
        if p:
            self._pending_exc = set()
            return set(p)
        return set()


_STEPS = 0
_T0 = None
TIME_BUDGET = int(__import__('os').environ.get('VERIF_TIME_BUDGET', '90'))
STEP_BUDGET = int(__import__('os').environ.get('VERIF_STEP_BUDGET', '400000'))


def _endless_iterable(e) -> bool:
    if not isinstance(e, ast.Call):
        return False
    try:
        fn = ast.unparse(e.func)
    except Exception:
        return False
    if fn in ('itertools.count', 'count'):
        return True
    if fn in ('itertools.repeat', 'repeat') and len(e.args) == 1 and not e.keywords:
        return True
    return False


class Flow:
    def __init__(self, client: Client):
        self.c = client
        self._exc_stack: List[str] = []
        self._ret_nodes: Dict[int, ast.Return] = {}

    # ------------------------------------------------------------------ API
    def run(self, body: List[ast.stmt], states: Iterable[Any]) -> Outcomes:
        return self._block(body, set(states))

    # ------------------------------------------------------------- internals
    def _block(self, body: List[ast.stmt], states: Set[Any]) -> Outcomes:
        out = Outcomes()
        cur = set(states)
        for st in body:
            if not cur:
                break
            # a budget for the whole process: statement x state steps.  A function whose paths multiply beyond it (helpers with
            # many independent branches expanded inside loops) is not analysed further -- the answer is "cannot decide", fast
            global _STEPS, _T0
            _STEPS += len(cur)
            if _T0 is None:
                _T0 = __import__('time').time()
            elif __import__("time").time() - _T0 > TIME_BUDGET:
                from .srcmodel import AnalysisError
                raise AnalysisError('path exploration took more than %d s (at line %d): the paths of this function, with the helpers '
                                    'expanded in it, multiply beyond what the analysis follows' % (TIME_BUDGET, getattr(st, 'lineno', 0)))
            if _STEPS > STEP_BUDGET:
                from .srcmodel import AnalysisError
                raise AnalysisError('path exploration exceeded its budget of %d statement x state steps at line %d: the paths of this '
                                    'function (with the helpers expanded in it) multiply beyond what the analysis follows'
                                    % (STEP_BUDGET, getattr(st, 'lineno', 0)))
            o = self._stmt(st, cur)
            out.absorb(o)
            cur = o.fall
        out.fall = cur
        return out

    def _simple(self, st, states: Set[Any], fn) -> Outcomes:
        out = Outcomes()
        for s in states:
            for ex in self.c.raises(st, s):
                out.exc.add((s, ex))
            for s2 in fn(st, s):
                out.fall.add(s2)
            out.exc |= self.c.take_pending()
        return out

    def cond(self, test: ast.expr, states: Set[Any]) -> Tuple[Set[Any], Set[Any], Set[Tuple[Any, str]]]:
        """-> (true states, false states, raised)"""
        t: Set[Any] = set()
        f: Set[Any] = set()
        exc: Set[Tuple[Any, str]] = set()
        if isinstance(test, ast.BoolOp):
            cur = set(states)
            if isinstance(test.op, ast.Or):
                for v in test.values:
                    tt, ff, ee = self.cond(v, cur)
                    t |= tt
                    exc |= ee
                    cur = ff
                f = cur
            else:
                for v in test.values:
                    tt, ff, ee = self.cond(v, cur)
                    f |= ff
                    exc |= ee
                    cur = tt
                t = cur
            return t, f, exc
        if isinstance(test, ast.UnaryOp) and isinstance(test.op, ast.Not):
            tt, ff, ee = self.cond(test.operand, states)
            return ff, tt, ee
        for s in states:
            for ex in self.c.raises(test, s):
                exc.add((s, ex))
            a, b = self.c.atom_branch(test, s)
            t |= set(a)
            f |= set(b)
            exc |= self.c.take_pending()
        return t, f, exc

    def _stmt(self, st: ast.stmt, states: Set[Any]) -> Outcomes:
        c = self.c
        out = Outcomes()
        if isinstance(st, ast.If):
            t, f, exc = self.cond(st.test, states)
            out.exc |= exc
            o1 = self._block(st.body, t)
            o2 = self._block(st.orelse, f) if st.orelse else None
            out.absorb(o1, fall=True)
            if o2 is not None:
                out.absorb(o2, fall=True)
            else:
                out.fall |= f
            return out
        if isinstance(st, ast.While):
            head: Set[Any] = set()
            for s0 in states:
                head |= set(c.loop_enter(st, s0))
            seen: Set[Any] = set()
            exit_false: Set[Any] = set()
            n = 0
            while head - seen:
                n += 1
                if n > c.loop_cap:
                    raise AnalysisError('loop fix-point not reached at line %d' % st.lineno)
                new = head - seen
                seen |= new
                t, f, exc = self.cond(st.test, new)
                out.exc |= exc
                exit_false |= f
                o = self._block(st.body, t)
                out.ret |= o.ret
                out.exc |= o.exc
                for sb in o.fall | o.cont:
                    head |= set(c.back_edge(st, sb))
                for sb in o.brk:
                    out.fall |= set(c.loop_leave(st, sb))
            left = set()
            for sb in exit_false:
                left |= set(c.loop_leave(st, sb))
            if st.orelse:
                o = self._block(st.orelse, left)
                out.absorb(o, fall=True)
            else:
                out.fall |= left
            return out
        if isinstance(st, ast.For):
            # a loop over a small constant sequence is unrolled: every pass is analysed with its own item
            unrolled = self._unrolled_for(st, states)
            if unrolled is not None:
                return unrolled
            pre: Set[Any] = set()
            for s in states:
                for ex in c.raises(st.iter, s):
                    out.exc.add((s, ex))
                for s1 in c.expr(st.iter, s):
                    pre |= set(c.loop_enter(st, s1))
            head = set(pre)
            seen = set()
            exhausted: Set[Any] = set()
            n = 0
            while head - seen:
                n += 1
                if n > c.loop_cap:
                    raise AnalysisError('loop fix-point not reached at line %d' % st.lineno)
                new = head - seen
                seen |= new
                body_in: Set[Any] = set()
                for s in new:
                    exhausted |= set(c.loop_exhausted(st, s))
                    body_in |= set(c.loop_bind(st, s))
                    for ex in c.raises_iter(st, s):
                        out.exc.add((s, ex))
                o = self._block(st.body, body_in)
                out.ret |= o.ret
                out.exc |= o.exc
                for sb in o.fall | o.cont:
                    head |= set(c.back_edge(st, sb))
                for sb in o.brk:
                    out.fall |= set(c.loop_leave(st, sb))
            left = set()
            if _endless_iterable(st.iter):
                exhausted = set()     # library fact: itertools.count() / cycle / repeat(x) never run out: the loop ends by break / return / raise only
            for sb in exhausted:
                left |= set(c.loop_leave(st, sb))
            if st.orelse:
                o = self._block(st.orelse, left)
                out.absorb(o, fall=True)
            else:
                out.fall |= left
            return out
        if isinstance(st, ast.Try):
            return self._try(st, states)
        if isinstance(st, ast.With):
            cur = set(states)
            for item in st.items:
                nxt: Set[Any] = set()
                for s in cur:
                    for ex in c.raises(item.context_expr, s):
                        out.exc.add((s, ex))
                    nxt |= set(c.with_enter(item, s))
                cur = nxt
            o = self._block(st.body, cur)
            # __exit__ on normal and exceptional completion
            for s in o.fall:
                out.fall |= set(c.with_exit(st, s, False))
            for s, r in o.ret:
                for s2 in c.with_exit(st, s, False):
                    out.ret.add((s2, r))
            for s in o.brk:
                out.brk |= set(c.with_exit(st, s, False))
            for s in o.cont:
                out.cont |= set(c.with_exit(st, s, False))
            for s, e in o.exc:
                for s2 in c.with_exit(st, s, True):
                    out.exc.add((s2, e))
            return out
        if isinstance(st, ast.Return):
            for s in states:
                if st.value is not None:
                    for ex in c.raises(st.value, s):
                        out.exc.add((s, ex))
                for s2 in c.on_return(st, s):
                    out.ret.add((s2, id(st)))
                out.exc |= c.take_pending()
            self._ret_nodes[id(st)] = st
            return out
        if isinstance(st, ast.Raise):
            for s in states:
                if st.exc is None:
                    name = self._exc_stack[-1] if self._exc_stack else 'Exception'
                else:
                    name = c.exc_name(st.exc) or 'Exception'
                    for s2 in c.expr(st.exc, s):
                        out.exc.add((s2, name))
                    continue
                out.exc.add((s, name))
            return out
        if isinstance(st, ast.Break):
            out.brk |= states
            return out
        if isinstance(st, ast.Continue):
            out.cont |= states
            return out
        if isinstance(st, (ast.FunctionDef, ast.AsyncFunctionDef, ast.ClassDef)):
            for s in states:
                out.fall |= set(c.nested_def(st, s))
            return out
        if isinstance(st, ast.Expr) and isinstance(st.value, ast.BoolOp):
            t, f, exc = self.cond(st.value, states)
            out.exc |= exc
            out.fall = t | f
            return out
        if isinstance(st, (ast.Expr, ast.Assign, ast.AugAssign, ast.AnnAssign, ast.Pass,
                           ast.Delete, ast.Global, ast.Nonlocal, ast.Import, ast.ImportFrom,
                           ast.Assert)):
            return self._simple(st, states, c.stmt)
        raise AnalysisError('statement kind %s at line %d is not modelled by the flow engine'
                            % (type(st).__name__, getattr(st, 'lineno', 0)))

    def _unrolled_for(self, st: ast.For, states: Set[Any]) -> Optional[Outcomes]:
        c = self.c
        plans = []
        for s in states:
            items = c.unroll_items(st, s)
            if items is None:
                return None
            plans.append((s, items))
        out = Outcomes()
        for s, items in plans:
            for ex in c.raises(st.iter, s):
                out.exc.add((s, ex))
            cur: Set[Any] = set(c.expr(st.iter, s))
            exhausted: Set[Any] = set()
            for item in items:
                if not cur:
                    break
                body_in: Set[Any] = set()
                for s1 in cur:
                    body_in |= set(c.bind_item(st, s1, item))
                o = self._block(st.body, body_in)
                out.ret |= o.ret
                out.exc |= o.exc
                out.fall |= o.brk          # break: leaves the loop without running ``else``
                cur = o.fall | o.cont
            exhausted = cur
            if st.orelse:
                o = self._block(st.orelse, exhausted)
                out.absorb(o, fall=True)
            else:
                out.fall |= exhausted
        return out

    def _try(self, st: ast.Try, states: Set[Any]) -> Outcomes:
        c = self.c
        body = self._block(st.body, states)
        res = Outcomes()
        res.ret |= body.ret
        res.brk |= body.brk
        res.cont |= body.cont
        # handlers
        pending = set(body.exc)
        for h in st.handlers:
            names: List[Optional[str]]
            if h.type is None:
                names = [None]
            elif isinstance(h.type, ast.Tuple):
                names = [c.exc_name(x) for x in h.type.elts]
            else:
                names = [c.exc_name(h.type)]
            caught: Set[Tuple[Any, str]] = set()
            still: Set[Tuple[Any, str]] = set()
            for s, e in pending:
                verdicts = [c.hierarchy.catches(n, e) for n in names]
                if 'yes' in verdicts:
                    caught.add((s, e))
                elif 'maybe' in verdicts:
                    # the instance may be of the handler's class (narrowed) or not
                    hn = next(n for n, v in zip(names, verdicts) if v == 'maybe')
                    caught.add((s, hn or e))
                    still.add((s, e))
                else:
                    still.add((s, e))
            pending = still
            by_exc: Dict[str, Set[Any]] = {}
            for s, e in caught:
                by_exc.setdefault(e, set()).update(c.handler_bind(h, s, e))
            for e, ss in by_exc.items():
                self._exc_stack.append(e)
                try:
                    o = self._block(h.body, ss)
                finally:
                    self._exc_stack.pop()
                res.absorb(o, fall=True)
        res.exc |= pending
        if st.orelse:
            o = self._block(st.orelse, body.fall)
            res.absorb(o, fall=True)
        else:
            res.fall |= body.fall
        if st.finalbody:
            fin = Outcomes()
            o = self._block(st.finalbody, res.fall)
            fin.absorb(o, fall=True)
            for s, r in res.ret:
                o = self._block(st.finalbody, {s})
                fin.ret |= o.ret
                fin.exc |= o.exc
                fin.brk |= o.brk
                fin.cont |= o.cont
                for s2 in o.fall:
                    fin.ret.add((c.after_finally(s, s2), r))
            for s, e in res.exc:
                o = self._block(st.finalbody, {s})
                fin.ret |= o.ret
                fin.exc |= o.exc
                fin.brk |= o.brk
                fin.cont |= o.cont
                for s2 in o.fall:
                    fin.exc.add((s2, e))
            for s in res.brk:
                o = self._block(st.finalbody, {s})
                fin.ret |= o.ret
                fin.exc |= o.exc
                fin.brk |= o.fall | o.brk
                fin.cont |= o.cont
            for s in res.cont:
                o = self._block(st.finalbody, {s})
                fin.ret |= o.ret
                fin.exc |= o.exc
                fin.cont |= o.fall | o.cont
                fin.brk |= o.brk
            return fin
        return res

    def ret_node(self, rid: int) -> Optional[ast.Return]:
        return self._ret_nodes.get(rid)


def calls_in(node: ast.AST) -> List[ast.Call]:
    """All call nodes in evaluation order (approximately: post-order), not
    descending into nested function definitions / lambdas."""
    out: List[ast.Call] = []

    def walk(n):
        for ch in ast.iter_child_nodes(n):
            if isinstance(ch, (ast.FunctionDef, ast.AsyncFunctionDef, ast.Lambda, ast.ClassDef)):
                continue
            walk(ch)
        if isinstance(n, ast.Call):
            out.append(n)
    walk(node)
    return out


def attr_chain(e: ast.AST) -> Optional[Tuple[str, ...]]:
    """``a.b.c`` -> ('a','b','c'); None for anything else."""
    parts: List[str] = []
    while isinstance(e, ast.Attribute):
        parts.append(e.attr)
        e = e.value
    if isinstance(e, ast.Name):
        parts.append(e.id)
        return tuple(reversed(parts))
    return None
