"""Caches (memos) in the package's functions: where they are, what they are keyed by, what the cached value depends on.

A function that keeps results -- in a dict attribute, in a pair of attributes, in a named slot of a holder object -- is the same
function as without the cache exactly when everything the cached value depends on is determined by the key it is filed under
(or cannot change while the cache lives).  This module recognises the common shapes on the syntax tree of one function and
reports, for every memo, the inputs of the value that the key leaves out.  Shapes:

    S   if K == self.k: return self.v        ...  self.k, self.v = K, V     (one slot on the object)
    D1  if K not in D: D[K] = V                                              (dict, membership test)
    D2  try: x = D[K]  except KeyError: x = V; D[K] = x                       (dict, look-up that may fail)
    D3  x = D.get(K); if x is None: x = V; D[K] = x                           (dict, get)
    A   x = getattr(O, N, None); if x is None: x = V; ..; setattr(O, N, x)    (named slot of a holder object)

The *value inputs* are the names and attribute chains read by the statements of the miss branch (the computation of V and any
configuration of the new object before it is stored), minus what those statements bind themselves."""
from __future__ import annotations

import ast
from dataclasses import dataclass, field
from typing import Dict, List, Optional, Set, Tuple


@dataclass
class Memo:
    shape: str
    store: str                      # text of the cache (``self._file_meta``, ``self.last_action``, ``_scratch``)
    key: ast.expr
    miss: List[ast.stmt]            # statements executed on a miss, up to and including the store
    line: int
    stmt: Optional[ast.stmt] = None
    key_leaves: Set[str] = field(default_factory=set)
    value_leaves: Set[str] = field(default_factory=set)


def _chain(e) -> Optional[str]:
    parts = []
    while isinstance(e, ast.Attribute):
        parts.append(e.attr)
        e = e.value
    if isinstance(e, ast.Name):
        parts.append(e.id)
        return '.'.join(reversed(parts))
    return None


def leaves(nodes, bound: Set[str]) -> Set[str]:
    """maximal names / attribute chains read in ``nodes`` (callee expressions of calls excluded, except their receivers)"""
    out: Set[str] = set()

    def visit(n, as_callee=False):
        if isinstance(n, (ast.Lambda, ast.FunctionDef, ast.ClassDef)):
            return
        if isinstance(n, ast.Attribute):
            ch = _chain(n)
            if ch is not None:
                if as_callee:
                    # a method call: the receiver is read, the method name is not data
                    recv = ch.rsplit('.', 1)[0]
                    if recv.split('.')[0] not in bound:
                        out.add(recv)
                elif isinstance(n.ctx, ast.Load) and ch.split('.')[0] not in bound:
                    out.add(ch)
                return
            visit(n.value)
            return
        if isinstance(n, ast.Name):
            if isinstance(n.ctx, ast.Load) and not as_callee and n.id not in bound:
                out.add(n.id)
            return
        if isinstance(n, ast.Call):
            visit(n.func, as_callee=True)
            for a in n.args:
                visit(a.value if isinstance(a, ast.Starred) else a)
            for k in n.keywords:
                visit(k.value)
            return
        if isinstance(n, (ast.GeneratorExp, ast.ListComp, ast.SetComp, ast.DictComp)):
            inner_bound = set()
            for g in n.generators:
                for t in ast.walk(g.target):
                    if isinstance(t, ast.Name):
                        inner_bound.add(t.id)
            sub = leaves([g.iter for g in n.generators] + [c for g in n.generators for c in g.ifs] +
                         ([n.key, n.value] if isinstance(n, ast.DictComp) else [n.elt]), bound | inner_bound)
            out.update(sub)
            return
        for ch in ast.iter_child_nodes(n):
            visit(ch)
    for n in nodes:
        visit(n)
    return out


def _binds(stmts) -> Set[str]:
    out = set()
    for st in stmts:
        for n in ast.walk(st):
            if isinstance(n, ast.Name) and isinstance(n.ctx, (ast.Store, ast.Del)):
                out.add(n.id)
    return out


def _same(a, b) -> bool:
    return a is not None and b is not None and ast.dump(a) == ast.dump(b)


def _sub_store(st, cache_txt=None):
    """(cache expr, key expr, value expr) of ``D[K] = V``"""
    if isinstance(st, ast.Assign) and len(st.targets) == 1 and isinstance(st.targets[0], ast.Subscript) \
            and not isinstance(st.targets[0].slice, ast.Slice) and _chain(st.targets[0].value) is not None:
        if cache_txt is None or _chain(st.targets[0].value) == cache_txt:
            return st.targets[0].value, st.targets[0].slice, st.value
    return None


def find_memos(fnode) -> List[Memo]:
    memos: List[Memo] = []

    def blocks(body):
        yield body
        for st in body:
            if isinstance(st, (ast.FunctionDef, ast.AsyncFunctionDef, ast.ClassDef)):
                continue
            for fld in ('body', 'orelse', 'finalbody'):
                sub = getattr(st, fld, None)
                if isinstance(sub, list) and sub and isinstance(sub[0], ast.stmt):
                    yield from blocks(sub)
            for h in getattr(st, 'handlers', []) or []:
                yield from blocks(h.body)

    for blk in blocks(fnode.body):
        for i, st in enumerate(blk):
            # ---- D1: if K not in D: D[K] = V
            if isinstance(st, ast.If) and not st.orelse:
                t = st.test
                neg = False
                while isinstance(t, ast.UnaryOp) and isinstance(t.op, ast.Not):
                    t, neg = t.operand, not neg
                if isinstance(t, ast.Compare) and len(t.ops) == 1 and ((isinstance(t.ops[0], ast.NotIn) and not neg) or
                                                                       (isinstance(t.ops[0], ast.In) and neg)):
                    D, K = t.comparators[0], t.left
                    stores = [s_ for s_ in st.body if _sub_store(s_, _chain(D)) is not None]
                    if _chain(D) is not None and stores and _same(_sub_store(stores[-1])[1], K):
                        k_end = st.body.index(stores[-1])
                        memos.append(Memo('D1', _chain(D), K, st.body[:k_end + 1], st.lineno, st))
                        continue
            # ---- D2: try: x = D[K] except KeyError: ...; D[K] = x
            if isinstance(st, ast.Try) and len(st.body) == 1 and isinstance(st.body[0], ast.Assign) and len(st.handlers) == 1 \
                    and isinstance(st.body[0].value, ast.Subscript) and not isinstance(st.body[0].value.slice, ast.Slice):
                h = st.handlers[0]
                hn = ast.unparse(h.type) if h.type is not None else ''
                D, K = st.body[0].value.value, st.body[0].value.slice
                if hn.split('.')[-1] in ('KeyError', 'LookupError') and _chain(D) is not None:
                    stores = [s_ for s_ in h.body if _sub_store(s_, _chain(D)) is not None]
                    if stores and _same(_sub_store(stores[-1])[1], K):
                        memos.append(Memo('D2', _chain(D), K, h.body[:h.body.index(stores[-1]) + 1], st.lineno, st))
                        continue
            # ---- D3 / A: x = D.get(K) | getattr(O, N, None); if x is None: ...; D[K] = x | setattr(O, N, x)
            if isinstance(st, ast.Assign) and len(st.targets) == 1 and isinstance(st.targets[0], ast.Name) and isinstance(st.value, ast.Call) \
                    and i + 1 < len(blk) and isinstance(blk[i + 1], ast.If) and not blk[i + 1].orelse:
                x = st.targets[0].id
                call = st.value
                nxt = blk[i + 1]
                t = nxt.test
                is_none = isinstance(t, ast.Compare) and len(t.ops) == 1 and isinstance(t.ops[0], ast.Is) and isinstance(t.left, ast.Name) \
                    and t.left.id == x and isinstance(t.comparators[0], ast.Constant) and t.comparators[0].value is None
                is_falsy = isinstance(t, ast.UnaryOp) and isinstance(t.op, ast.Not) and isinstance(t.operand, ast.Name) and t.operand.id == x
                if is_none or is_falsy:
                    if isinstance(call.func, ast.Attribute) and call.func.attr == 'get' and 1 <= len(call.args) <= 2 \
                            and _chain(call.func.value) is not None:
                        D, K = call.func.value, call.args[0]
                        stores = [s_ for s_ in nxt.body if _sub_store(s_, _chain(D)) is not None]
                        if stores and _same(_sub_store(stores[-1])[1], K):
                            memos.append(Memo('D3', _chain(D), K, nxt.body[:nxt.body.index(stores[-1]) + 1], st.lineno, st))
                            continue
                    if isinstance(call.func, ast.Name) and call.func.id == 'getattr' and len(call.args) == 3 \
                            and isinstance(call.args[2], ast.Constant) and call.args[2].value is None and _chain(call.args[0]) is not None:
                        O, N = call.args[0], call.args[1]
                        sets = [s_ for s_ in nxt.body if isinstance(s_, ast.Expr) and isinstance(s_.value, ast.Call)
                                and isinstance(s_.value.func, ast.Name) and s_.value.func.id == 'setattr' and len(s_.value.args) == 3
                                and _same(s_.value.args[0], O) and _same(s_.value.args[1], N)]
                        if sets:
                            memos.append(Memo('A', _chain(O), N, nxt.body[:nxt.body.index(sets[-1]) + 1], st.lineno, st))
                            continue
            # ---- S: if K == self.k: return self.v ... self.k, self.v = K, V
            if isinstance(st, ast.If) and not st.orelse and len(st.body) == 1 and isinstance(st.body[0], ast.Return) \
                    and isinstance(st.test, ast.Compare) and len(st.test.ops) == 1 and isinstance(st.test.ops[0], ast.Eq):
                a, b = st.test.left, st.test.comparators[0]
                slot, K = (b, a) if _chain(b) is not None and '.' in (_chain(b) or '') and not (_chain(a) or '').startswith('self.') else (a, b)
                v_slot = st.body[0].value
                if _chain(slot) is not None and '.' in _chain(slot) and v_slot is not None and _chain(v_slot) is not None \
                        and _chain(v_slot).split('.')[0] == _chain(slot).split('.')[0]:
                    rest = blk[i + 1:]
                    # the stores of both slots later in the block
                    k_store = v_store = None
                    for j, s_ in enumerate(rest):
                        if isinstance(s_, ast.Assign) and len(s_.targets) == 1:
                            tg, val = s_.targets[0], s_.value
                            pairs = []
                            if isinstance(tg, ast.Tuple) and isinstance(val, ast.Tuple) and len(tg.elts) == len(val.elts):
                                pairs = list(zip(tg.elts, val.elts))
                            else:
                                pairs = [(tg, val)]
                            for tg_, val_ in pairs:
                                if _same_chain(tg_, slot):
                                    k_store = (j, val_)
                                if _same_chain(tg_, v_slot):
                                    v_store = (j, val_)
                    if k_store is not None and v_store is not None and _same(k_store[1], K):
                        end = max(k_store[0], v_store[0])
                        memos.append(Memo('S', _chain(v_slot), K, rest[:end + 1], st.lineno, st))
                        continue
    for m in memos:
        bound = _binds(m.miss)
        m.key_leaves = leaves([m.key], set())
        # what the key is computed from counts as well: a key that is a local is resolved by the caller (see resolve_locals)
        m.value_leaves = leaves(_value_reads(m), bound) - {m.store}
    return memos


def _same_chain(a, b) -> bool:
    return _chain(a) is not None and _chain(a) == _chain(b)


def _value_reads(m: Memo) -> List[ast.AST]:
    """the expressions of the miss branch that contribute to the cached object: right-hand sides and call arguments, not the
    targets of the final store"""
    out: List[ast.AST] = []
    for st in m.miss:
        if isinstance(st, ast.Assign):
            out.append(st.value)
            for t in st.targets:
                if isinstance(t, ast.Subscript) and _chain(t.value) == m.store:
                    continue          # D[K] = x: the key is not an input of the value
                if isinstance(t, (ast.Attribute, ast.Subscript)):
                    out.append(t.value)
        elif isinstance(st, ast.Expr):
            if isinstance(st.value, ast.Call) and isinstance(st.value.func, ast.Name) and st.value.func.id == 'setattr':
                out.extend(st.value.args[2:])
            else:
                out.append(st.value)
        elif isinstance(st, (ast.AugAssign, ast.AnnAssign)):
            if st.value is not None:
                out.append(st.value)
        else:
            out.append(st)
    return out


def resolve_locals(fnode, names: Set[str]) -> Set[str]:
    """replace locals of the function that are bound once to an expression by the leaves of that expression (``name =
    'implicit' if is_implicit_vr else 'explicit'`` makes a key ``name`` stand for ``is_implicit_vr``)"""
    params = {a.arg for a in fnode.args.args + fnode.args.kwonlyargs}
    out: Set[str] = set()
    work = list(names)
    seen = set()
    while work:
        n = work.pop()
        if n in seen:
            continue
        seen.add(n)
        root = n.split('.')[0]
        if root in params or '.' in n and root == 'self':
            out.add(n)
            continue
        binds = [s_ for s_ in ast.walk(fnode) if isinstance(s_, ast.Assign) and len(s_.targets) == 1
                 and isinstance(s_.targets[0], ast.Name) and s_.targets[0].id == root]
        if len(binds) > 1 and '.' not in n and root not in params:
            # bound in the arms of conditionals: stands for what the arms compute and what the conditions test
            tests = [i_.test for i_ in ast.walk(fnode) if isinstance(i_, ast.If) and any(b_ is x_ for b_ in binds for x_ in ast.walk(i_))]
            work.extend(leaves([b_.value for b_ in binds] + tests, set()))
            continue
        if len(binds) == 1 and '.' not in n:
            work.extend(leaves([binds[0].value], set()))
        elif len(binds) == 1:
            # attribute of a local bound once to a simple chain: ``selected = self.ae.selected_ts``
            ch = _chain(binds[0].value)
            if ch is not None:
                work.append(ch + n[len(root):])
            else:
                out.add(n)
        else:
            out.add(n)
    return out


def missing_inputs(repo, fi, m: Memo) -> List[str]:
    """inputs of the cached value that neither the key determines nor are fixed for the life of the cache"""
    fnode = fi.node
    key = resolve_locals(fnode, m.key_leaves)
    vals = resolve_locals(fnode, m.value_leaves)
    rs_ = sorted(resolve_locals(fnode, {m.store})) if m.store else []
    store = rs_[0] if rs_ else m.store
    owner = store.rsplit('.', 1)[0] if '.' in store else None
    out = []
    for v in sorted(vals):
        if any(v == k or v.startswith(k + '.') for k in key):
            continue
        root = v.split('.')[0]
        # module-level names: functions, classes, modules, constants
        if '.' not in v or root != 'self' and root not in {a.arg for a in fnode.args.args}:
            if root in fi.module.functions or root in fi.module.classes or root in fi.module.imports or root in fi.module.assigns \
                    or root in ('True', 'False', 'None') or root in dir(__builtins__ if isinstance(__builtins__, type(ast)) else ast) \
                    or root in __import__('builtins').__dict__:
                continue
        # state of the object the cache lives on that is only set by constructors: fixed while the cache lives
        if owner is not None and (v == owner or v.startswith(owner + '.')) and _stable(repo, v.rsplit('.', 1)[-1]):
            continue
        if v.startswith('self.') and owner == 'self' and _stable(repo, v.split('.')[1]) and v.count('.') == 1:
            continue
        if v.startswith('self.') and _class_constant(fi, v.split('.')[1]):
            continue
        out.append(v)
    return out


def _stable(repo, attr: str) -> bool:
    """is the attribute stored only in ``__init__`` methods anywhere in the package?"""
    cache = getattr(repo, '_stable_attrs', None)
    if cache is None:
        cache = {}
        for f in repo.all_functions():
            for n in ast.walk(f.node):
                if isinstance(n, ast.Attribute) and isinstance(n.ctx, (ast.Store, ast.Del)):
                    cache.setdefault(n.attr, set()).add(f.name)
        repo._stable_attrs = cache
    where = cache.get(attr)
    return where is not None and where <= {'__init__'}


def _class_constant(fi, attr: str) -> bool:
    c = fi.cls
    if c is None:
        return False
    hit = c.find_attr(attr)
    return hit is not None


MUTATORS = ('write', 'writelines', 'seek', 'truncate', 'append', 'extend', 'insert', 'remove', 'pop', 'popitem', 'clear', 'update',
            'setdefault', 'add', 'discard', 'sort', 'reverse', 'close', 'put', 'send', 'sendall')


def reset_at_acquisition(fnode, m: Memo, module) -> bool:
    """the cache holds a buffer that is written by its users: reading the function without the cache is still right when the
    buffer is per-thread and is emptied -- ``seek(0)`` and ``truncate()`` on it or its ``.parent`` -- right after it was taken from
    the cache, before anything else is done with it (a new buffer and an emptied one are the same thing to the caller)"""
    root = m.store.split('.')[0]
    vals = module.assigns.get(root)
    if not vals or len(vals) != 1 or not isinstance(vals[0], ast.Call):
        return False
    fn = ast.unparse(vals[0].func)
    tl = fn in ('threading.local', 'local')
    if not tl and fn in module.classes:
        tl = any(b.split('.')[-1] == 'local' for b in module.classes[fn].all_ext_bases())
    if not tl:
        return False
    names = {st.targets[0].id for st in m.miss if isinstance(st, ast.Assign) and len(st.targets) == 1 and isinstance(st.targets[0], ast.Name)}
    for blk in _all_blocks(fnode):
        for i, st in enumerate(blk):
            if st is m.stmt:
                # statements after the memo (skip the ``if x is None`` of shapes D3 / A)
                j = i + 1
                if m.shape in ('D3', 'A'):
                    j = i + 2
                seen = set()
                for s_ in blk[j:]:
                    if isinstance(s_, ast.Assign) and all(isinstance(t, ast.Attribute) and isinstance(t.value, ast.Name) and t.value.id in names
                                                         for t in s_.targets):
                        continue          # configuration of the buffer object
                    if isinstance(s_, ast.Expr) and isinstance(s_.value, ast.Call) and isinstance(s_.value.func, ast.Attribute):
                        f_ = s_.value.func
                        base = f_.value.value if isinstance(f_.value, ast.Attribute) and f_.value.attr == 'parent' else f_.value
                        if isinstance(base, ast.Name) and base.id in names:
                            if f_.attr == 'seek' and s_.value.args and isinstance(s_.value.args[0], ast.Constant) and s_.value.args[0].value == 0:
                                seen.add('seek')
                                continue
                            if f_.attr == 'truncate' and not s_.value.args:
                                seen.add('truncate')
                                continue
                    break
                return seen == {'seek', 'truncate'}
    return False


def _all_blocks(fnode):
    out = []

    def walk(body):
        out.append(body)
        for st in body:
            if isinstance(st, (ast.FunctionDef, ast.AsyncFunctionDef, ast.ClassDef)):
                continue
            for fld in ('body', 'orelse', 'finalbody'):
                sub = getattr(st, fld, None)
                if isinstance(sub, list) and sub and isinstance(sub[0], ast.stmt):
                    walk(sub)
            for h in getattr(st, 'handlers', []) or []:
                walk(h.body)
    walk(fnode.body)
    return out


def elidable(fnode, m: Memo) -> bool:
    """may the function be read without the cache?  Only when what is cached is a plain value for the rest of the function: the
    variable that receives it is not written through afterwards (no attribute / item stores, no mutating method calls on it) --
    a buffer that is re-used is state of its own and stays visible"""
    names = set()
    for st in m.miss:
        if isinstance(st, ast.Assign) and len(st.targets) == 1 and isinstance(st.targets[0], ast.Name):
            names.add(st.targets[0].id)
    cache_reads = []
    for n in ast.walk(fnode):
        if isinstance(n, (ast.Attribute, ast.Subscript)) and isinstance(n.ctx, (ast.Store, ast.Del)):
            base = n.value
            if isinstance(base, ast.Name) and base.id in names:
                return False
        if isinstance(n, ast.Call) and isinstance(n.func, ast.Attribute) and n.func.attr in MUTATORS \
                and isinstance(n.func.value, ast.Name) and n.func.value.id in names:
            return False
        if isinstance(n, ast.Call) and isinstance(n.func, ast.Attribute) and n.func.attr in MUTATORS \
                and isinstance(n.func.value, ast.Attribute) and isinstance(n.func.value.value, ast.Name) and n.func.value.value.id in names:
            return False      # x.parent.truncate()
    return True
