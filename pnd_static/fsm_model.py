"""Extraction of the upper-layer state machine from fsm.py.

* the transition table as {(event name, state name): action method name},
* an *effect summary* of every action method for a given abstract context
  (type of the current primitive, transport present/absent, role), obtained by
  path-sensitive data-flow (flow.py) over the method body with intra-class calls
  inlined.

Effect vocabulary (what an action can do that the standard talks about):
  ('send', kinds)      dul_socket.sendall(<pdu>.encode())
  ('indicate', kinds)  to_service_user.put(<pdu or (msg, pc_id)>)
  ('close',)           dul_socket.close()
  ('unset',)           dul_socket = None
  ('timer', op)        timer.start / stop / restart
  ('connect',)         dul_socket.connect(...)
  ('newsock',)         dul_socket = socket.socket(...)
  ('setprim', kinds)   primitive = <value>
  ('decode',)          dimse_decoder.process(primitive)
A *kind* is (class name | 'None' | 'TOP' | 'P-DATA', abort source constant or None).
"""
from __future__ import annotations

import ast
from dataclasses import dataclass
from typing import Any, Dict, FrozenSet, Iterable, List, Optional, Tuple

from .flow import Client, Flow, attr_chain, calls_in, ExcHierarchy
from .srcmodel import (FuncRef, AnalysisError, BoundMethod, ClassInfo, ClassRef, FuncInfo, NotConst, Repo,
                       body_without_docstring, norm)

Kind = Tuple[str, Optional[int]]
TOP: Kind = ('TOP', None)
NONE: Kind = ('None', None)
PDATA: Kind = ('P-DATA', None)

PDU_CLASSES = ['AAssociateRqPDU', 'AAssociateAcPDU', 'AAssociateRjPDU', 'PDataTfPDU',
               'AReleaseRqPDU', 'AReleaseRpPDU', 'AAbortPDU']

NOEFFECT_CALL_PREFIXES = ('logging.', 'logger.', 'log.', 'warnings.', 'print')


@dataclass(frozen=True)
class EState:
    effects: Tuple[Any, ...]
    prim: FrozenSet[Kind]
    sock: str                 # 'present' | 'absent'
    role: str                 # 'requestor' | 'acceptor'
    locs: FrozenSet[Tuple[str, FrozenSet[Kind]]]
    conds: Tuple[str, ...]    # unresolved branch conditions taken on this path
    retval: Optional[str] = None
    exc_path: bool = False    # an exception handler was entered on this path

    def add(self, *eff):
        return self.with_(effects=self.effects + eff)

    def with_(self, **kw):
        d = dict(effects=self.effects, prim=self.prim, sock=self.sock, role=self.role,
                 locs=self.locs, conds=self.conds, retval=self.retval, exc_path=self.exc_path)
        d.update(kw)
        return EState(**d)

    def local(self, name):
        for n, v in self.locs:
            if n == name:
                return v
        return None

    def set_local(self, name, val):
        locs = frozenset([(n, v) for n, v in self.locs if n != name] + [(name, val)])
        return self.with_(locs=locs)


@dataclass
class ActionOutcome:
    kind: str                  # 'return' | 'raise'
    effects: Tuple[Any, ...]
    next: Optional[str]        # state name ('STA_6') for returns
    exc: Optional[str]
    conds: Tuple[str, ...]
    role: str
    sock_after: str
    prim_after: FrozenSet[Kind]
    exc_path: bool = False


class FsmModel:
    def __init__(self, repo: Repo):
        self.repo = repo
        self.mod = repo.module('fsm')
        self.sm: ClassInfo = repo.cls('fsm', 'StateMachine')
        self.states_cls = repo.cls('fsm', 'States')
        self.events_cls = repo.cls('fsm', 'Events')
        self.state_vals = self._enum(self.states_cls, 'STA_', 13)
        self.event_vals = self._enum(self.events_cls, 'EVT_', 19)
        self.state_by_val = {v: k for k, v in self.state_vals.items()}
        self.event_by_val = {v: k for k, v in self.event_vals.items()}
        self.table_node: Optional[ast.Dict] = None
        self.table: Dict[Tuple[str, str], str] = {}
        self.table_dupes: List[Tuple[str, str]] = []
        self._load_table()
        self.hier = exc_hierarchy(repo)
        self.provider_cls = repo.cls('dulprovider', 'DULServiceProvider')
        self.role_attr_values = None

    # ------------------------------------------------------------------ enums
    def _enum(self, c: ClassInfo, prefix: str, n: int) -> Dict[str, int]:
        out = {}
        for k, v in c.attrs.items():
            if k.startswith(prefix):
                val = self.repo.try_fold(v, c.module, c)
                if not isinstance(val, int):
                    raise AnalysisError('%s.%s is not an integer constant' % (c.name, k))
                out[k] = val
        want = {'%s%d' % (prefix, i) for i in range(1, n + 1)}
        if set(out) != want:
            raise AnalysisError('%s members %s differ from the %d the standard defines'
                                % (c.name, sorted(set(out) ^ want), n))
        if len(set(out.values())) != n:
            raise AnalysisError('%s values are not pairwise distinct' % c.name)
        return out

    # ------------------------------------------------------------------ table
    def _load_table(self):
        """The transition table an instance holds after construction, by constant propagation through the constructor
        (peval.py): a dict literal, a table built from rows, ``dict.update`` of generated rows -- whatever the
        initialiser does with constants."""
        from .peval import CannotEval, PEval, Raised, SelfObj, Tagged, UNKNOWN, _Bound
        pe = PEval(self.repo)
        try:
            obj = pe.constructed(self.sm)
            table = obj.attrs.get('transition_table')
            if table is None and self.sm.find_attr('transition_table') is not None:
                hit = self.sm.find_attr('transition_table')
                table = pe.class_attr(hit[0], 'transition_table')
        except (CannotEval, Raised) as exc:
            raise AnalysisError('StateMachine.transition_table cannot be determined from its initialiser: %s' % (exc,))
        if not isinstance(table, dict) or not table:
            raise AnalysisError('StateMachine.transition_table dict literal not found')
        self.table_where = self.sm.find_method('__init__')
        for key, v in table.items():
            if not (isinstance(key, tuple) and len(key) == 2 and all(isinstance(x, int) and not isinstance(x, bool) for x in key)):
                raise AnalysisError('transition_table key %r is not a pair of constants' % (key,))
            # keys must be (event, state): checked by the enumeration the constants were read from where that is known
            for x, want in ((key[0], 'Events'), (key[1], 'States')):
                if isinstance(x, Tagged) and x.owner in ('Events', 'States') and x.owner != want:
                    raise AnalysisError('transition_table key (%s.%s, ...) is not (event, state)' % (x.owner, x.member))
            ev = self.event_by_val.get(int(key[0]))
            st = self.state_by_val.get(int(key[1]))
            if ev is None or st is None:
                raise AnalysisError('transition_table key %r outside the enumerations' % (key,))
            if isinstance(v, _Bound):
                name = v.fi.name
            elif isinstance(v, FuncRef) and v.module == 'fsm' and v.qualname.startswith('StateMachine.'):
                name = v.qualname.split('.', 1)[1]
            else:
                raise AnalysisError('transition_table value for (%s, %s) is not a method of the state machine' % (ev, st))
            if not self.sm.find_method(name):
                raise AnalysisError('transition_table refers to unknown method %s' % name)
            self.table[(ev, st)] = name
        for k in pe.dupes:
            if isinstance(k, tuple) and len(k) == 2:
                ev, st = self.event_by_val.get(int(k[0])), self.state_by_val.get(int(k[1]))
                if ev and st:
                    self.table_dupes.append((ev, st))

    def _action_name(self, v: ast.expr) -> str:
        ch = attr_chain(v)
        if ch and len(ch) == 2 and ch[0] in ('self', 'StateMachine'):
            name = ch[1]
        elif isinstance(v, ast.Name):
            name = v.id
        else:
            raise AnalysisError('transition_table value %s is not a method reference' % norm(v))
        if not self.sm.find_method(name):
            raise AnalysisError('transition_table refers to unknown method %s' % name)
        return name

    # -------------------------------------------------------------- role attr
    def role_worlds(self, attr: str, _depth: int = 0) -> Optional[Dict[str, Any]]:
        """Value of provider attribute ``attr`` in the requestor / acceptor world,
        or None when the attribute is assigned nowhere."""
        vals: Dict[str, Any] = {}
        init = self.provider_cls.find_method('__init__')
        found = False
        SOCK = _Truthy('socket')
        # the attribute as a read-only property: another attribute under a new name, or an expression over the provider's
        # state *when it is read* -- in a release collision both sides hold a transport connection
        pf = self.provider_cls.find_method(attr)
        if pf is not None and pf.kind == 'property' and attr not in self.provider_cls.setters and _depth < 4:
            body = [x for x in pf.node.body if not (isinstance(x, ast.Expr) and isinstance(x.value, ast.Constant))]

            def as_expr(stmts):
                """the expression a body of returns stands for (``if c: return a else: return b`` is ``a if c else b``)"""
                if len(stmts) == 1 and isinstance(stmts[0], ast.Return) and stmts[0].value is not None:
                    return stmts[0].value
                if len(stmts) >= 1 and isinstance(stmts[0], ast.If):
                    a_ = as_expr(stmts[0].body)
                    b_ = as_expr(stmts[0].orelse or stmts[1:])
                    if a_ is not None and b_ is not None:
                        return ast.IfExp(test=stmts[0].test, body=a_, orelse=b_)
                return None
            e0 = as_expr(body)
            if e0 is not None:
                e = e0
                ch = attr_chain(e) if isinstance(e, ast.Attribute) else None
                if ch and len(ch) == 2 and ch[0] == pf.params[0]:
                    return self.role_worlds(ch[1], _depth + 1)

                class _S(ast.NodeTransformer):
                    def visit_Attribute(self_, n):
                        if attr_chain(n) == (pf.params[0], 'dul_socket'):
                            return ast.Name(id='dul_socket', ctx=ast.Load())
                        return self_.generic_visit(n)
                import copy as _copy
                try:
                    v = _small_eval(_S().visit(_copy.deepcopy(e)), {'dul_socket': SOCK})
                    return {'requestor': v, 'acceptor': v}
                except _CannotEval:
                    return None
        if init is not None:
            for world, sockval in (('requestor', None), ('acceptor', SOCK)):
                env = {'dul_socket': sockval}
                v = _eval_assigned(init.node, attr, env)
                if v is not _MISSING:
                    vals[world] = v
                    found = True
        # assignments through the association classes: self.dul.<attr> = const
        asce = self.repo.module('asceprovider')
        for cname, world in (('AssociationRequester', 'requestor'), ('AssociationAcceptor', 'acceptor')):
            c = asce.classes.get(cname)
            if not c:
                continue
            for f in c.methods.values():
                for st in ast.walk(f.node):
                    if isinstance(st, ast.Assign):
                        for t in st.targets:
                            if attr_chain(t) == ('self', 'dul', attr):
                                try:
                                    vals[world] = _small_eval(st.value, {})
                                    found = True
                                except _CannotEval:
                                    pass
        return vals if found else None

    # ---------------------------------------------------------------- effects
    def summarize(self, action: str, prim: FrozenSet[Kind], sock: str, roles=('requestor', 'acceptor')) -> List[ActionOutcome]:
        f = self.sm.find_method(action)
        if f is None:
            raise AnalysisError('action method %s not found' % action)
        outs: List[ActionOutcome] = []
        for role in roles:
            client = EffectClient(self, f)
            init = EState((), prim, sock, role, frozenset(), ())
            res = client.run_method(f, init)
            for s, val in res['ret']:
                outs.append(ActionOutcome('return', s.effects, val, None, s.conds, role, s.sock, s.prim, s.exc_path))
            for s, e in res['exc']:
                outs.append(ActionOutcome('raise', s.effects, None, e, s.conds, role, s.sock, s.prim, s.exc_path))
        # de-duplicate outcomes that do not depend on the role
        uniq = []
        seen = set()
        for o in outs:
            k = (o.kind, o.effects, o.next, o.exc, o.conds, o.sock_after, o.prim_after)
            k2 = k + (o.role,)
            if k2 in seen:
                continue
            seen.add(k2)
            uniq.append(o)
        return uniq


class _Truthy:
    def __init__(self, name):
        self.name = name

    def __bool__(self):
        return True

    def __repr__(self):
        return '<%s>' % self.name


class _CannotEval(Exception):
    pass


_MISSING = object()


def _small_eval(e: ast.expr, env: Dict[str, Any]) -> Any:
    if isinstance(e, ast.Constant):
        return e.value
    if isinstance(e, ast.Name):
        if e.id in env:
            return env[e.id]
        if e.id in ('True', 'False', 'None'):
            return {'True': True, 'False': False, 'None': None}[e.id]
        raise _CannotEval(e.id)
    if isinstance(e, ast.UnaryOp) and isinstance(e.op, ast.Not):
        return not _small_eval(e.operand, env)
    if isinstance(e, ast.BoolOp):
        vals = [_small_eval(v, env) for v in e.values]
        if isinstance(e.op, ast.And):
            r = True
            for v in vals:
                r = v
                if not v:
                    break
            return r
        r = False
        for v in vals:
            r = v
            if v:
                break
        return r
    if isinstance(e, ast.IfExp):
        return _small_eval(e.body, env) if _small_eval(e.test, env) else _small_eval(e.orelse, env)
    if isinstance(e, ast.Compare) and len(e.ops) == 1:
        a = _small_eval(e.left, env)
        b = _small_eval(e.comparators[0], env)
        op = e.ops[0]
        if isinstance(op, ast.Is):
            return a is b
        if isinstance(op, ast.IsNot):
            return a is not b
        if isinstance(op, ast.Eq):
            return a == b
        if isinstance(op, ast.NotEq):
            return a != b
        raise _CannotEval('cmp')
    if isinstance(e, ast.Call) and isinstance(e.func, ast.Name) and e.func.id in ('bool', 'int') and len(e.args) == 1:
        v = _small_eval(e.args[0], env)
        return bool(v) if e.func.id == 'bool' else int(bool(v)) if isinstance(v, (bool, _Truthy)) or v is None else int(v)
    raise _CannotEval(type(e).__name__)


def _eval_assigned(fnode, attr: str, env: Dict[str, Any]):
    """Value assigned to ``self.<attr>`` by executing the straight-line/if structure
    of ``fnode`` under ``env`` (parameters), or _MISSING."""
    result = [_MISSING]

    def run(body):
        for st in body:
            if isinstance(st, ast.Assign):
                for t in st.targets:
                    if attr_chain(t) == ('self', attr):
                        try:
                            result[0] = _small_eval(st.value, env)
                        except _CannotEval:
                            result[0] = _CannotEval
            elif isinstance(st, ast.If):
                try:
                    c = _small_eval(st.test, env)
                except _CannotEval:
                    # cannot decide: look into both but mark undecidable if assigned inside
                    before = result[0]
                    run(st.body)
                    run(st.orelse)
                    if result[0] is not before:
                        result[0] = _CannotEval
                    continue
                run(st.body if c else st.orelse)
    run(fnode.body)
    return result[0]


def exc_hierarchy(repo: Repo) -> ExcHierarchy:
    m = repo.module('exceptions')
    extra = {}
    for c in m.classes.values():
        if c.bases:
            extra[c.name] = c.bases[0].name
        elif c.ext_bases:
            extra[c.name] = c.ext_bases[0]
    return ExcHierarchy(extra)


class EffectClient(Client):
    """Abstract interpretation of one StateMachine action."""

    def __init__(self, model: FsmModel, f: FuncInfo, depth: int = 0):
        self.model = model
        self.f = f
        self.depth = depth
        self.hierarchy = model.hier
        self.repo = model.repo
        self.mod = f.module
        self.cls = f.cls

    # ---- running --------------------------------------------------------
    def run_method(self, f: FuncInfo, init: EState):
        flow = Flow(self)
        o = flow.run(body_without_docstring(f.node), [init])
        ret = set()
        for s, rid in o.ret:
            ret.add((s.with_(retval=None), s.retval))
        for s in o.fall:
            ret.add((s.with_(retval=None), None))
        return {'ret': ret, 'exc': set(o.exc)}

    # ---- canonical access paths -----------------------------------------
    def canon(self, e: ast.AST) -> Optional[Tuple[str, ...]]:
        ch = attr_chain(e)
        if not ch or ch[0] != 'self':
            return ch
        rest = ch[1:]
        if rest[:1] == ('provider',):
            rest = rest[1:]
        return ('self',) + rest

    # ---- abstract value of an expression ----------------------------------
    def kinds(self, e: ast.expr, s: EState) -> FrozenSet[Kind]:
        if isinstance(e, ast.Constant) and e.value is None:
            return frozenset([NONE])
        if isinstance(e, ast.Tuple):
            return frozenset([PDATA])
        c = self.canon(e)
        if c == ('self', 'primitive'):
            return s.prim
        if isinstance(e, ast.Name):
            v = s.local(e.id)
            if v is not None:
                return v
            return frozenset([TOP])
        if isinstance(e, ast.Call) and isinstance(e.func, ast.Attribute) and e.func.attr == 'encode' and not e.args:
            return self.kinds(e.func.value, s)      # the bytes of a PDU are that PDU as far as effects go
        if isinstance(e, ast.Call):
            try:
                r = self.repo.resolve_expr(e.func, self.mod, self.cls)
            except NotConst:
                r = None
            if isinstance(r, ClassRef) and r.module == 'pdu':
                src = None
                if r.name == 'AAbortPDU':
                    ci = self.repo.cls('pdu', 'AAbortPDU')
                    init = ci.find_method('__init__')
                    params = init.params[1:] if init else []
                    for i, a in enumerate(e.args):
                        if i < len(params) and params[i] == 'source':
                            src = self.repo.try_fold(a, self.mod, self.cls)
                    for kw in e.keywords:
                        if kw.arg == 'source':
                            src = self.repo.try_fold(kw.value, self.mod, self.cls)
                    if not isinstance(src, int):
                        src = None
                return frozenset([(r.name, src)])
        return frozenset([TOP])

    # ---- classification of calls ----------------------------------------
    def _call_effect(self, call: ast.Call, s: EState) -> List[EState]:
        fn = call.func
        if isinstance(fn, ast.Attribute):
            recv = self.canon(fn.value)
            meth = fn.attr
            if recv == ('self', 'dul_socket'):
                if meth == 'sendall':
                    arg = call.args[0] if call.args else None
                    if isinstance(arg, ast.Call) and isinstance(arg.func, ast.Attribute) and arg.func.attr == 'encode':
                        return [s.add(('send', self.kinds(arg.func.value, s)))]
                    if arg is not None:
                        return [s.add(('send', self.kinds(arg, s)))]    # a local holding the encoded PDU
                    return [s.add(('send', frozenset([TOP])))]
                if meth == 'close':
                    return [s.add(('close',))]
                if meth == 'connect':
                    return [s.add(('connect',))]
                if meth in ('settimeout', 'setsockopt', 'shutdown', 'setblocking'):
                    return [s]
                raise AnalysisError('%s: unmodelled socket call %s' % (self.f.loc(call), norm(call)))
            if recv == ('self', 'to_service_user') and meth in ('put', 'put_nowait'):
                arg = call.args[0] if call.args else None
                return [s.add(('indicate', self.kinds(arg, s) if arg is not None else frozenset([TOP])))]
            if recv == ('self', 'timer') and meth in ('start', 'stop', 'restart'):
                return [s.add(('timer', meth))]
            if recv == ('self', 'dimse_decoder') and meth == 'process':
                return [s.add(('decode',))]
            if recv is not None and recv[0] == 'self' and len(recv) == 1:
                # self.method(...): inline
                target = self.cls.find_method(meth) if self.cls else None
                if target is not None and target.kind in ('method',):
                    if self.depth > 4:
                        raise AnalysisError('recursion while inlining %s' % meth)
                    sub = EffectClient(self.model, target, self.depth + 1)
                    # bind the parameters: abstract kinds of the arguments; a state constant stays a state
                    s_in = s.with_(locs=frozenset())
                    params = target.params[1:]
                    bound = list(zip(params, call.args)) + [(k.arg, k.value) for k in call.keywords if k.arg in params]
                    dflt = target.node.args.defaults
                    for p_, d_ in zip(params[len(params) - len(dflt):], dflt):
                        if p_ not in [b[0] for b in bound]:
                            bound.append((p_, d_))
                    for p_, a_ in bound:
                        sn = self._state_name(a_, s)
                        s_in = s_in.set_local(p_, frozenset([('STATE:' + sn, None)]) if sn else self.kinds(a_, s))
                    res = sub.run_method(target, s_in)
                    outs = []
                    for s2, val in res['ret']:
                        outs.append(s2.with_(locs=s.locs, retval=val))
                    self._pending_exc = getattr(self, '_pending_exc', set()) | set(
                        (s2.with_(locs=s.locs), e) for s2, e in res['exc'])
                    return outs
            txt = norm(fn)
            if txt.startswith(NOEFFECT_CALL_PREFIXES) or txt.split('.')[0] in ('logging', 'logger', 'log') \
                    or self.repo.is_logging_call(call, self.mod):
                return [s]
            if meth in ('encode', 'format', 'get', 'keys', 'values', 'items') and recv is not None:
                return [s]
            if isinstance(fn.value, ast.Constant) and isinstance(fn.value.value, (str, bytes)):
                return [s]      # a method of a literal ('..'.format(..), b''.join(..)): no effect on the machine
            if recv is not None and recv[0] != 'self':
                # call on a local / module object: constructor handled in kinds()
                return [s]
            if recv is not None and recv[:2] == ('self', 'dimse_decoder'):
                return [s]
            if recv is not None and recv[:2] == ('self', 'primitive'):
                return [s]
            # a question put to the provider (``self.provider.check_x(pdu)``): a method of the provider class introduced after the
            # inventory that touches neither transport, timer nor queues has no effect on the machine; its answer is opaque
            ch_ = attr_chain(fn)
            if ch_ and ch_[:2] == ('self', 'provider') and len(ch_) == 3:
                pm_ = self.model.provider_cls.find_method(ch_[2])
                if pm_ is not None and self.repo.is_helper(pm_) and not any(
                        isinstance(n_, ast.Attribute) and n_.attr in ('dul_socket', 'timer', 'to_service_user', 'from_service_user', 'event',
                                                                      'state_machine', 'primitive') and isinstance(n_.ctx, (ast.Store, ast.Del))
                        or isinstance(n_, ast.Call) and isinstance(n_.func, ast.Attribute) and n_.func.attr in (
                            'sendall', 'send', 'close', 'put', 'put_nowait', 'start', 'stop', 'restart', 'append', 'appendleft', 'connect', 'shutdown')
                        for n_ in ast.walk(pm_.node)):
                    return [s]
            # a method of the provider (introduced after the inventory) that gives the transport up on the machine's behalf --
            # closes the socket, releases the attribute, queues an event -- and does nothing else the model keeps track of:
            # its effects are the action's effects at that point
            if ch_ and ch_[:2] == ('self', 'provider') and len(ch_) == 3:
                pm_ = self.model.provider_cls.find_method(ch_[2])
                summ_ = _provider_callback_effects(pm_) if pm_ is not None and self.repo.is_helper(pm_) else None
                if summ_ is not None:
                    effs_, tests_socket_ = summ_
                    if s.sock == 'absent' and tests_socket_:
                        return [s]
                    s2_ = s
                    for e_ in effs_:
                        s2_ = s2_.add(e_)
                    if ('unset',) in effs_:
                        s2_ = s2_.with_(sock='absent')
                    return [s2_]
            raise AnalysisError('%s: unmodelled call %s inside state machine action'
                                % (self.f.loc(call), norm(call)))
        # plain function / constructor call: no effect on the protocol machine
        return [s]

    def _effects_of_expr(self, e: ast.AST, s: EState) -> List[EState]:
        states = [s]
        for call in calls_in(e):
            nxt = []
            for st in states:
                r = self._call_effect(call, st)
                # a ``return self.aa_8()`` style call: remember value
                nxt.extend(r)
            states = nxt
        return states

    # ---- Client interface -------------------------------------------------
    def expr(self, e, s):
        return self._effects_of_expr(e, s)

    def handler_bind(self, h, s, exc):
        return [s.with_(exc_path=True, conds=s.conds + ('exc:%s' % exc,))]

    def stmt(self, st, s: EState):
        if isinstance(st, ast.Expr):
            return [x.with_(retval=None) for x in self._effects_of_expr(st.value, s)]
        if isinstance(st, ast.Assign):
            outs = []
            for s1 in self._effects_of_expr(st.value, s):
                rv = s1.retval if isinstance(st.value, ast.Call) else None
                s1 = s1.with_(retval=None)
                for t in st.targets:
                    if rv is not None and rv != '<current>' and isinstance(t, ast.Name):
                        # ``nxt = self.other_action()``: the local holds the state that action returned on this path
                        s1 = s1.set_local(t.id, frozenset([('STATE:' + rv, None)]))
                    else:
                        s1 = self._assign(t, st.value, s1)
                outs.append(s1)
            return outs
        if isinstance(st, ast.AugAssign):
            return self._effects_of_expr(st.value, s)
        if isinstance(st, ast.AnnAssign) and st.value is not None:
            s1s = self._effects_of_expr(st.value, s)
            return [self._assign(st.target, st.value, x) for x in s1s]
        return [s]

    def _assign(self, t: ast.expr, value: ast.expr, s: EState) -> EState:
        c = self.canon(t)
        if c == ('self', 'primitive'):
            k = self.kinds(value, s)
            return s.with_(prim=k).add(('setprim', k))
        if c == ('self', 'dul_socket'):
            if isinstance(value, ast.Constant) and value.value is None:
                return s.with_(sock='absent').add(('unset',))
            return s.with_(sock='present').add(('newsock',))
        if c == ('self', 'current_state'):
            raise AnalysisError('%s: action assigns current_state directly' % self.f.loc(t))
        if isinstance(t, ast.Name):
            return s.set_local(t.id, self.kinds(value, s))
        if isinstance(t, ast.Tuple):
            vals = value.elts if isinstance(value, ast.Tuple) and len(value.elts) == len(t.elts) else [None] * len(t.elts)
            for tt, vv in zip(t.elts, vals):
                if isinstance(tt, ast.Name):
                    s = s.set_local(tt.id, frozenset([TOP]))
            return s
        if c is not None and c[0] == 'self':
            # other attributes of the machine (dimse_decoder, ...) are internal
            return s
        return s

    def _state_name(self, e: ast.expr, s: EState) -> Optional[str]:
        """'STA_6' if the expression denotes that state constant (directly, by value, or through a local /
        parameter bound to one)."""
        ch = attr_chain(e)
        if ch and len(ch) >= 2 and ch[-2] == 'States':
            return ch[-1]
        if isinstance(e, ast.Name):
            v = s.local(e.id)
            if v is not None:
                if len(v) == 1:
                    k = next(iter(v))
                    if isinstance(k, tuple) and isinstance(k[0], str) and k[0].startswith('STATE:'):
                        return k[0][6:]
                return None
        v = self.repo.try_fold(e, self.mod, self.cls)
        if isinstance(v, int) and not isinstance(v, bool) and v in self.model.state_by_val:
            return self.model.state_by_val[v]
        return None

    def on_return(self, st, s: EState):
        if st.value is None:
            return [s.with_(retval=None)]
        outs = []
        for s1 in self._effects_of_expr(st.value, s):
            if isinstance(st.value, ast.Call) and s1.retval is not None:
                outs.append(s1)
                continue
            name = self._state_name(st.value, s1)
            if name is None:
                c = self.canon(st.value)
                if c == ('self', 'current_state'):
                    name = '<current>'
                elif self.depth > 0:
                    # a helper of the machine that answers a question (a hook returning a decision) rather than performing an
                    # action: its value is opaque, its effects -- none were raised on the way here -- are kept
                    name = '<value>'
                else:
                    raise AnalysisError('%s: action returns %s, not a state constant'
                                        % (self.f.loc(st), norm(st.value)))
            outs.append(s1.with_(retval=name))
        return outs

    def atom_branch(self, test, s: EState):
        # effects of calls in the test first
        ss = self._effects_of_expr(test, s)
        t_out, f_out = [], []
        for s1 in ss:
            r = self._decide(test, s1)
            if r is None:
                txt = norm(test)
                t_out.append(s1.with_(conds=s1.conds + ('+' + txt,)))
                f_out.append(s1.with_(conds=s1.conds + ('-' + txt,)))
            else:
                tt, ff = r
                t_out.extend(tt)
                f_out.extend(ff)
        return t_out, f_out

    def _decide(self, test, s: EState):
        """-> (true states, false states) when the abstract state decides/refines the
        test, None when it does not talk about anything we track."""
        c = self.canon(test)
        if isinstance(test, ast.Name) and s.local(test.id) is not None:
            ks = s.local(test.id)
            if ks and NONE not in ks and TOP not in ks and all(isinstance(k, tuple) and not str(k[0]).startswith('STATE:') for k in ks):
                return ([s], [])      # a PDU object is truthy
            if ks == frozenset([NONE]):
                return ([], [s])
        if c == ('self', 'dul_socket'):
            return ([s], []) if s.sock == 'present' else ([], [s])
        if c == ('self', 'primitive'):
            tk = frozenset(k for k in s.prim if k != NONE)
            fk = frozenset(k for k in s.prim if k in (NONE, TOP))
            return ([s.with_(prim=tk)] if tk else []), ([s.with_(prim=frozenset([NONE]))] if fk else [])
        if isinstance(test, ast.Compare) and len(test.ops) == 1:
            left, op, right = test.left, test.ops[0], test.comparators[0]
            lc = self.canon(left)
            if isinstance(right, ast.Constant) and right.value is None and isinstance(op, (ast.Is, ast.IsNot, ast.Eq, ast.NotEq)):
                pos = isinstance(op, (ast.Is, ast.Eq))
                if lc == ('self', 'dul_socket'):
                    isnone = s.sock == 'absent'
                    return ([s], []) if (isnone == pos) else ([], [s])
                if isinstance(left, ast.Name) and s.local(left.id) is not None:
                    # a local whose kinds are known (a freshly built PDU, a parameter bound to None)
                    ks = s.local(left.id)
                    if ks and NONE not in ks and TOP not in ks:
                        return ([], [s]) if pos else ([s], [])
                    if ks == frozenset([NONE]):
                        return ([s], []) if pos else ([], [s])
                if lc == ('self', 'primitive'):
                    nk = frozenset(k for k in s.prim if k in (NONE, TOP))
                    ok = frozenset(k for k in s.prim if k != NONE)
                    a = [s.with_(prim=frozenset([NONE]))] if nk else []
                    b = [s.with_(prim=ok)] if ok else []
                    return (a, b) if pos else (b, a)
            # self.primitive.pdu_type == pdu.X.pdu_type
            if lc == ('self', 'primitive', 'pdu_type') and isinstance(op, (ast.Eq, ast.NotEq)):
                v = self.repo.try_fold(right, self.mod, self.cls)
                if isinstance(v, int):
                    names = [n for n in PDU_CLASSES
                             if self.repo.try_fold(self.repo.cls('pdu', n).find_attr('pdu_type')[1],
                                                   self.repo.module('pdu')) == v]
                    return self._refine_prim(s, names, isinstance(op, ast.Eq))
            # a local / parameter holding a state compared with a state constant
            if isinstance(op, (ast.Eq, ast.NotEq, ast.Is, ast.IsNot)) and (isinstance(left, ast.Name) or isinstance(right, ast.Name)):
                ln, rn = self._state_name(left, s), self._state_name(right, s)
                if ln is not None and rn is not None:
                    same = ln == rn
                    pos = isinstance(op, (ast.Eq, ast.Is))
                    return ([s], []) if same == pos else ([], [s])
            # role tests: self.provider.<attr> == const
            r = self._role_test(test, s)
            if r is not None:
                return r
        if isinstance(test, ast.Call) and isinstance(test.func, ast.Name) and test.func.id == 'isinstance' and len(test.args) == 2:
            if self.canon(test.args[0]) == ('self', 'primitive'):
                names = []
                elts = test.args[1].elts if isinstance(test.args[1], ast.Tuple) else [test.args[1]]
                for x in elts:
                    try:
                        r = self.repo.resolve_expr(x, self.mod, self.cls)
                    except NotConst:
                        return None
                    if not isinstance(r, ClassRef):
                        return None
                    ci = self.repo.cls(r.module, r.name)
                    names.extend(c.name for c in self.repo.subclasses(ci))
                return self._refine_prim(s, names, True)
        r = self._role_test(test, s)
        if r is not None:
            return r
        return None

    def _refine_prim(self, s: EState, names: List[str], positive: bool):
        yes = frozenset(k for k in s.prim if k[0] in names)
        no = frozenset(k for k in s.prim if k[0] not in names)
        if TOP in s.prim:
            yes = yes | frozenset((n, None) for n in names)
            no = no | frozenset([TOP])
        a = [s.with_(prim=yes)] if yes else []
        b = [s.with_(prim=no)] if no else []
        return (a, b) if positive else (b, a)

    def _role_test(self, test, s: EState):
        # find a provider attribute read in the test
        attrs = []
        for n in ast.walk(test):
            if isinstance(n, ast.Attribute):
                ch = attr_chain(n)
                if ch and ch[:2] == ('self', 'provider') and len(ch) == 3:
                    attrs.append(ch[2])
        attrs = [a for a in attrs if a not in ('primitive', 'dul_socket', 'to_service_user', 'timer')]
        if len(attrs) != 1:
            return None
        attr = attrs[0]
        worlds = self.model.role_worlds(attr)
        self.model.role_attr_seen = getattr(self.model, 'role_attr_seen', {})
        self.model.role_attr_seen[attr] = worlds
        if worlds is None or s.role not in worlds or worlds[s.role] is _CannotEval:
            return None

        class _Sub(ast.NodeTransformer):
            def visit_Attribute(self_inner, node):
                if attr_chain(node) == ('self', 'provider', attr):
                    return ast.Name(id='__role__', ctx=ast.Load())
                return node
        import copy
        t2 = _Sub().visit(copy.deepcopy(test))
        try:
            v = _small_eval(t2, {'__role__': worlds[s.role]})
        except _CannotEval:
            return None
        return ([s], []) if v else ([], [s])

    def raises(self, node, s: EState):
        out = []
        pend = getattr(self, '_pending_exc', None)
        for call in calls_in(node):
            fn = call.func
            if isinstance(fn, ast.Attribute):
                recv = self.canon(fn.value)
                if recv == ('self', 'dul_socket') and fn.attr in SOCKET_MAY_FAIL + ('close',):
                    if fn.attr != 'close':
                        out.append('OSError')
                    if s.sock == 'absent':
                        out.append('AttributeError')
                if recv == ('self', 'dimse_decoder') and fn.attr == 'process':
                    out.append('Exception')
                if fn.attr == 'encode' and self.canon(fn.value) == ('self', 'primitive'):
                    if any(k in (NONE, TOP) for k in s.prim):
                        out.append('AttributeError')
            else:
                try:
                    r = self.repo.resolve_expr(fn, self.mod, self.cls)
                except NotConst:
                    r = None
                if getattr(r, 'path', None) == 'socket.socket':
                    out.append('OSError')
        for n in ast.walk(node):
            if isinstance(n, ast.Attribute):
                ch = attr_chain(n)
                if ch and ch[:2] == ('self', 'provider') and len(ch) == 3 and \
                        ch[2] not in ('primitive', 'dul_socket', 'to_service_user', 'timer'):
                    if not _provider_defines(self.model, ch[2]):
                        out.append('AttributeError')
                if ch and ch[:2] == ('self', 'primitive') and len(ch) == 3 and isinstance(n.ctx, ast.Load):
                    if any(k in (NONE, TOP) for k in s.prim):
                        out.append('AttributeError')
                    out.extend(peer_structure_raises(self.repo, ch[2]))
        return sorted(set(out))


_PSR_CACHE: Dict[str, List[str]] = {}


def peer_structure_raises(repo: Repo, attr: str, _depth: int = 0) -> List[str]:
    """What reading ``<received PDU>.<attr>`` may raise when ``attr`` is a property of the PDU / item classes that walks the
    structure the peer sent: ``x.user_data[k].name`` / ``x.variable_items[k].name`` reads ``name`` on whatever sub-item the peer put
    at position k -- AttributeError unless every class that can stand there defines it (the sub-item classes of
    ``pdu.SUB_ITEM_TYPES`` and the generic one; the four variable item classes) -- and IndexError unless the property tests the
    list for emptiness first.  Properties it reads in turn are followed."""
    if attr in _PSR_CACHE:
        return _PSR_CACHE[attr]
    _PSR_CACHE[attr] = []
    out: List[str] = []
    pdu_m = repo.modules.get('pdu')
    udi_m = repo.modules.get('userdataitems')
    if pdu_m is None or udi_m is None or _depth > 3:
        return out
    element_classes = {
        'user_data': [c for c in udi_m.classes.values() if c.find_method('decode')],
        'variable_items': [c for n_, c in pdu_m.classes.items() if n_ in ('ApplicationContextItem', 'PresentationContextItemRQ',
                                                                          'PresentationContextItemAC', 'UserInformationItem')],
    }

    def defines(c, name) -> bool:
        for k in c.mro():
            if name in k.attrs or name in k.methods:
                return True
            init = k.methods.get('__init__')
            if init is not None and any(isinstance(x, ast.Attribute) and isinstance(x.ctx, ast.Store) and isinstance(x.value, ast.Name)
                                        and x.value.id == 'self' and x.attr == name for x in ast.walk(init.node)):
                return True
        return False
    for m in (pdu_m, udi_m):
        for c in m.classes.values():
            f = c.methods.get(attr)
            if f is None or f.kind != 'property':
                continue
            guarded = set()
            for x in ast.walk(f.node):
                if isinstance(x, ast.If):
                    t = ast.unparse(x.test)
                    for lst in element_classes:
                        if ('self.%s' % lst) in t:
                            guarded.add(lst)
            for x in ast.walk(f.node):
                if isinstance(x, ast.Attribute) and isinstance(x.ctx, ast.Load) and isinstance(x.value, ast.Subscript) \
                        and isinstance(x.value.slice, ast.Constant) and isinstance(x.value.value, ast.Attribute) \
                        and x.value.value.attr in element_classes:
                    lst = x.value.value.attr
                    lacking = [k.name for k in element_classes[lst] if not defines(k, x.attr)]
                    if lacking:
                        out.append('AttributeError')
                    if lst not in guarded:
                        out.append('IndexError')
                elif isinstance(x, ast.Attribute) and isinstance(x.ctx, ast.Load) and isinstance(x.value, ast.Name) and x.value.id == f.params[0] \
                        and x.attr != attr:
                    out.extend(peer_structure_raises(repo, x.attr, _depth + 1))
                elif isinstance(x, ast.Attribute) and isinstance(x.ctx, ast.Load) and isinstance(x.value, ast.Name) and x.attr == attr \
                        and x.value.id != f.params[0]:
                    pass
            # a local bound to another property of self and then read (``ui = self.user_information; ui.maximum_length_received``)
            for x in ast.walk(f.node):
                if isinstance(x, ast.Attribute) and isinstance(x.ctx, ast.Load) and isinstance(x.value, ast.Name) and x.value.id != f.params[0] \
                        and x.attr == attr and c.name != 'UserInformationItem':
                    ui = pdu_m.classes.get('UserInformationItem')
                    if ui is not None and ui.methods.get(attr) is not None and ui.methods[attr].kind == 'property' and _depth == 0:
                        sub = _PSR_CACHE.pop(attr, None)
                        # (the same name on the contained item: judged when that class's property is visited in this loop)
                        _PSR_CACHE[attr] = sub or []
    res = sorted(set(out))
    _PSR_CACHE[attr] = res
    return res


# socket methods that fail with OSError on a connection the peer has reset or that cannot be established (close() does not:
# it only releases the descriptor)
SOCKET_MAY_FAIL = ('sendall', 'send', 'sendto', 'sendmsg', 'sendfile', 'connect', 'shutdown', 'recv', 'recv_into', 'recvfrom',
                   'recvmsg', 'getpeername', 'setsockopt', 'getsockopt')


def _provider_defines(model: FsmModel, attr: str) -> bool:
    c = model.provider_cls
    for k in c.mro():
        if attr in k.attrs or attr in k.methods:
            return True
        for f in k.methods.values():
            for n in ast.walk(f.node):
                if isinstance(n, (ast.Assign, ast.AnnAssign, ast.AugAssign)):
                    tgts = n.targets if isinstance(n, ast.Assign) else [n.target]
                    for t in tgts:
                        if attr_chain(t) == ('self', attr):
                            return True
    w = model.role_worlds(attr)
    return bool(w)


# --------------------------------------------------------------------------- cells

def std_event_name(n: int) -> str:
    return 'EVT_%d' % n


def std_state_name(n: int) -> str:
    return 'STA_%d' % n


def cell_context(evt: int, sta: int):
    """Abstract context in force when the action of cell (Evt<evt>, Sta<sta>) runs:
    (kinds of the current primitive, transport 'present'/'absent').

    * received-PDU and local-primitive events: the primitive is the PDU object of the
      kind the standard names for that event;
    * Evt2 (connect confirmation): still the A-ASSOCIATE-RQ of the preceding Evt1;
    * Evt5: nothing received yet (None); Evt17/18/19: whatever was current before (TOP);
    * the transport is absent after Evt17 (its producers close and unset the socket)
      and for Evt1 in Sta1 (AE-1 creates it); present otherwise.
    """
    from .oracles import ps3_8
    cause = ps3_8.EVENTS[evt]
    if cause[0] in ('pdu', 'primitive'):
        prim = frozenset([(ps3_8.PDU_KINDS[cause[1]][1], None)])
    elif evt == 2:
        prim = frozenset([('AAssociateRqPDU', None)])
    elif evt == 5:
        prim = frozenset([NONE])
    else:
        prim = frozenset([TOP])
    sock = 'absent' if (evt == 17 or (evt == 1 and sta == 1)) else 'present'
    return prim, sock


def _provider_callback_effects(pm_):
    """(effects, does it return early when there is no socket?) of a provider method that only closes / releases the transport and
    queues events; None when it does anything else the machine model tracks"""
    effs = []
    aliases = set()
    tests_socket = False
    for n_ in ast.walk(pm_.node):
        if isinstance(n_, ast.Assign):
            tg, val = n_.targets[0], n_.value
            pairs = list(zip(tg.elts, val.elts)) if isinstance(tg, ast.Tuple) and isinstance(val, ast.Tuple) and len(tg.elts) == len(val.elts) \
                else [(tg, val)]
            for t_, v_ in pairs:
                if isinstance(t_, ast.Name) and attr_chain(v_) == ('self', 'dul_socket'):
                    aliases.add(t_.id)
    for n_ in ast.walk(pm_.node):
        if isinstance(n_, ast.Compare) and len(n_.ops) == 1 and isinstance(n_.ops[0], (ast.Is, ast.IsNot)) \
                and isinstance(n_.comparators[0], ast.Constant) and n_.comparators[0].value is None \
                and (attr_chain(n_.left) == ('self', 'dul_socket') or isinstance(n_.left, ast.Name) and n_.left.id in aliases):
            tests_socket = True
    order = []
    for n_ in ast.walk(pm_.node):
        if isinstance(n_, ast.Call) and isinstance(n_.func, ast.Attribute):
            recv = attr_chain(n_.func.value)
            a_ = n_.func.attr
            if a_ == 'close' and (recv == ('self', 'dul_socket') or (recv and len(recv) == 1 and recv[0] in aliases)):
                order.append((n_.lineno, n_.col_offset, ('close',), recv != ('self', 'dul_socket')))
            elif a_ == 'append' and recv == ('self', 'event') and n_.args:
                order.append((n_.lineno, n_.col_offset, ('queue', norm(n_.args[0])), False))
            elif a_ in ('sendall', 'send', 'put', 'put_nowait', 'start', 'stop', 'restart', 'connect', 'shutdown', 'appendleft', 'clear', 'pop'):
                return None
        elif isinstance(n_, (ast.Assign, ast.AugAssign, ast.Delete)):
            tgs = n_.targets if isinstance(n_, (ast.Assign, ast.Delete)) else [n_.target]
            flat = []
            for t_ in tgs:
                flat += list(t_.elts) if isinstance(t_, ast.Tuple) else [t_]
            for t_ in flat:
                ch = attr_chain(t_) if isinstance(t_, ast.Attribute) else None
                if ch == ('self', 'dul_socket'):
                    order.append((n_.lineno, n_.col_offset, ('unset',), False))
                elif ch and ch[0] == 'self' and ch[1] in ('timer', 'to_service_user', 'from_service_user', 'event', 'state_machine', 'primitive'):
                    return None
    order.sort()
    effs = [e_ for _l, _c, e_, _a in order]
    # closing through a local bound to the socket before the attribute was released is closing the socket: for the order rule the
    # close comes first
    if ('close',) in effs and ('unset',) in effs and effs.index(('unset',)) < effs.index(('close',)) and any(al for _l, _c, e_, al in order if e_ == ('close',)):
        effs.remove(('close',))
        effs.insert(effs.index(('unset',)), ('close',))
    if not effs:
        return None
    return tuple(effs), tests_socket


def summarize_outcome(o: ActionOutcome):
    """Fold an effect list to the observable summary compared with the standard."""
    from .oracles import ps3_8
    cls_to_kind = {v[1]: k for k, v in ps3_8.PDU_KINDS.items()}

    def kinds(ks):
        out = set()
        srcs = set()
        for name, src in ks:
            if name in cls_to_kind:
                out.add(cls_to_kind[name])
            elif name == 'P-DATA':
                out.add('P-DATA')
            else:
                out.add(name)  # 'TOP' / 'None'
            if src is not None:
                srcs.add(src)
        return out, srcs

    send, indicate, send_src = set(), set(), set()
    n_close = n_unset = n_connect = n_newsock = 0
    timer = None
    order = []
    for eff in o.effects:
        tag = eff[0]
        if tag == 'send':
            k, sr = kinds(eff[1])
            send |= k
            send_src |= sr
            order.append('send')
        elif tag == 'indicate':
            k, _ = kinds(eff[1])
            indicate |= k
            order.append('indicate')
        elif tag == 'close':
            n_close += 1
            order.append('close')
        elif tag == 'unset':
            n_unset += 1
            order.append('unset')
        elif tag == 'connect':
            n_connect += 1
        elif tag == 'newsock':
            n_newsock += 1
        elif tag == 'timer':
            timer = 'stop' if eff[1] == 'stop' else 'run'
    return dict(send=frozenset(send), indicate=frozenset(indicate), close=n_close, unset=n_unset,
                connect=n_connect, newsock=n_newsock, timer=timer, send_src=frozenset(send_src),
                order=tuple(order), n_send=sum(1 for e in o.effects if e[0] == 'send'),
                n_indicate=sum(1 for e in o.effects if e[0] == 'indicate'))


NO_PENDING_INPUT_STATES = ('STA_1', 'STA_2', 'STA_4', 'STA_13')


def entered_states(conds, repo) -> Optional[Set[str]]:
    """The set of states a path is confined to by a positive test on the state *being entered* -- the value an action returned
    (``self.transition_table...()``) compared with a state constant or tested for membership in a constant collection of
    states.  None when the path carries no such test."""
    from .provider_model import parse_cond
    fsm_mod = repo.module('fsm')
    states = repo.cls('fsm', 'States')
    by_value = {}
    for name, val in states.attrs.items():
        v = repo.try_fold(val, fsm_mod, states)
        if isinstance(v, int) and name.startswith('STA_'):
            by_value[int(v)] = name
    found: Optional[Set[str]] = None
    for c in conds:
        pol, e = parse_cond(c)
        if e is None or not (isinstance(e, ast.Compare) and len(e.ops) == 1):
            continue
        op, l, r = e.ops[0], e.left, e.comparators[0]
        if isinstance(op, (ast.Eq, ast.NotEq)) and isinstance(r, ast.Call) and 'transition_table' in ast.unparse(r):
            l, r = r, l
        if not (isinstance(l, ast.Call) and 'transition_table' in ast.unparse(l)):
            continue
        if (isinstance(op, ast.In) and pol) or (isinstance(op, ast.NotIn) and not pol):
            coll = repo.try_fold(r, fsm_mod, None)
            if isinstance(coll, (set, frozenset, tuple, list)) and all(isinstance(x, int) for x in coll):
                names = {by_value.get(int(x), 'state %r' % (x,)) for x in coll}
                found = names if found is None else (found & names)
        elif (isinstance(op, ast.Eq) and pol) or (isinstance(op, ast.NotEq) and not pol):
            v = repo.try_fold(r, fsm_mod, None)
            if isinstance(v, int):
                names = {by_value.get(int(v), 'state %r' % (v,))}
                found = names if found is None else (found & names)
        # the complements: every state but the listed ones
        elif (isinstance(op, ast.NotIn) and pol) or (isinstance(op, ast.In) and not pol):
            coll = repo.try_fold(r, fsm_mod, None)
            if isinstance(coll, (set, frozenset, tuple, list)) and all(isinstance(x, int) for x in coll):
                names = set(by_value.values()) - {by_value.get(int(x)) for x in coll}
                found = names if found is None else (found & names)
        elif (isinstance(op, ast.NotEq) and pol) or (isinstance(op, ast.Eq) and not pol):
            v = repo.try_fold(r, fsm_mod, None)
            if isinstance(v, int):
                names = set(by_value.values()) - {by_value.get(int(v))}
                found = names if found is None else (found & names)
    return found


# PS3.8 Table 9-10, row Evt10 (P-DATA-TF PDU received): DT-2 in Sta6, AR-6 in Sta7, an abort (AA-1 / AA-7 / AA-8) in every other
# state -- the states in which a message under reassembly can still be completed
REASSEMBLY_STATES = ('STA_6', 'STA_7')
