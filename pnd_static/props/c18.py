"""C18 -- status codes are classified totally and consistently.

Decided exhaustively over 65536 codes x (response classes + none) by shape rules on the
three functions and interval arithmetic on the folded table; no code is enumerated and the
module is not executed."""
from __future__ import annotations

import ast
from typing import Dict, List, Optional, Tuple

from ..fsm_model import exc_hierarchy
from ..layout import Affine
from ..srcmodel import AnalysisError, ClassRef, norm
from ..sym import SymClient, empty_state, inline_pure_calls
from .c06 import aff_of_term

TYPES = ('Success', 'Pending', 'Warning', 'Cancel', 'Failure')


def record_fields(term_or_node):
    """{field: text of the argument} for a term that builds a registry record (a namedtuple type of the package called
    positionally / by keyword), or None"""
    from ..sym import NAMEDTUPLE_FIELDS
    e = term_or_node
    if isinstance(e, str):
        try:
            e = ast.parse(e, mode='eval').body
        except SyntaxError:
            return None
    if not (isinstance(e, ast.Call) and not any(isinstance(a, ast.Starred) for a in e.args) and not any(k.arg is None for k in e.keywords)):
        return None
    nm = e.func.id if isinstance(e.func, ast.Name) else e.func.attr if isinstance(e.func, ast.Attribute) else None
    fields = NAMEDTUPLE_FIELDS.get(nm)
    if not fields or len(e.args) + len(e.keywords) != len(fields):
        return None
    out = {f: norm(a) for f, a in zip(fields, e.args)}
    for k in e.keywords:
        if k.arg not in fields or k.arg in out:
            return None
        out[k.arg] = norm(k.value)
    return out


def run(repo, rep):
    from ..pitfalls import memo_rule as _memo_rule
    _memo_rule(repo, rep, 'C18', 'C18.Z1')
    from ..pitfalls import log_rule as _log_rule
    _log_rule(repo, rep, 'C18', 'C18.Z2')
    from ..api_pitfalls import truth_rule as _truth_rule
    _truth_rule(repo, rep, 'C18', 'C18.Z4')
    from ..api_pitfalls import attribute_rule as _attribute_rule
    _attribute_rule(repo, rep, 'C18', 'C18.Z5')
    st = repo.module('statuses')
    dm = repo.module('dimsemessages')
    hier = exc_hierarchy(repo)
    rep.trust('CPython dict / range / namedtuple semantics')
    rep.rule('C18.W1', 'registration: a row covers [code, end] inclusive; general dict iff no command, else the specific dict '
             'keyed (command_field, code); value from the row\'s type and description; every row registered in parameter order', 3)
    rep.rule('C18.W2', 'lookup: specific entry when a command is given and the entry exists, else general, else UNKNOWN; five '
             'flags are equalities with five distinct literals; int() returns the code', 3)
    rep.rule('C18.W4', 'service-specific rows only register codes the standard defines for that service (unknown codes stay '
             'failures)', 4)
    rep.rule('C18.W3', 'partition of [0, FFFFH] per response class: every interval has one of the five types (totality), '
             '0000H Success, pending codes Pending, specific beats general, no conflicting duplicate rows', 12)

    # ---------------------------------------------------------------- W1
    add = repo.func('statuses', 'add_status')
    rep.analysed(add)
    helper = lambda fi: fi.module.name == 'statuses' and fi.cls is None and fi.name not in ('add_status', 'register_statuses')
    def new_params(fi, n_old):
        """{parameter added behind the n_old known ones: text of its default} -- the property is about the calls that do not
        give them, so the rules read the function with each such parameter at its default"""
        extra = fi.params[n_old:]
        dfl = fi.node.args.defaults
        named = [a.arg for a in fi.node.args.args]
        out = {}
        for p_ in extra:
            i_ = named.index(p_) - (len(named) - len(dfl))
            if i_ < 0 or not isinstance(dfl[i_], ast.Constant):
                return None
            out[p_] = repr(dfl[i_].value)
        return out
    add_new = new_params(add, 5)
    c = SymClient(repo, add, event_of=lambda *a: None, hierarchy=hier, inline=helper,
                  store_event=lambda t: t in ('_general_status_dict[]', '_status_dict[]'))
    c.run(empty_state(dict(add_new or {})))
    stores = [(e, s) for e, s in c.log if e.kind == 'store']
    probs = []
    p_code, p_type, p_desc, p_end, p_cmd = (add.params + [None] * 5)[:5]
    if add_new is None or (add.params[:5] != ['code', 'code_type', 'description', 'end', 'command'] and len(add.params) != 5):
        probs.append('unexpected signature %s' % add.params)
    # a call that does give a new parameter registers something the old look-up must not see: no path on which such a
    # parameter differs from its default writes one of the two tables Status(code, command) reads
    given_in_package = set()
    if add_new:
        for m_ in repo.modules.values():
            for n_ in ast.walk(m_.tree):
                if isinstance(n_, ast.Call) and norm(n_.func).split('.')[-1] == 'add_status':
                    if len(n_.args) > 5 or any(isinstance(a_, ast.Starred) for a_ in n_.args) or any(k_.arg is None for k_ in n_.keywords):
                        given_in_package.update(add_new)
                    given_in_package.update(k_.arg for k_ in n_.keywords if k_.arg in add_new)
        cg = SymClient(repo, add, event_of=lambda *a: None, hierarchy=hier, inline=helper,
                       store_event=lambda t: t in ('_general_status_dict[]', '_status_dict[]'))
        cg.run(empty_state())
        for e_, s_ in cg.log:
            if e_.kind != 'store':
                continue
            for p_, d_ in add_new.items():
                # "given": a value other than the default -- not None for a None default, false for a True default, true for a
                # False default, different for any other constant
                forms = ['+%s != %s' % (p_, d_), '-%s == %s' % (p_, d_)]
                if d_ == 'None':
                    forms += ['+%s is not None' % p_, '-%s is None' % p_, '+%s' % p_, '-not %s' % p_]
                elif d_ == 'True':
                    forms += ['-%s' % p_, '+not %s' % p_]
                elif d_ in ('False', '0', "''"):
                    forms += ['+%s' % p_, '-not %s' % p_]
                given = [cn for cn in e_.conds if cn in forms]
                # ... where the library itself gives the parameter (a call in the package that passes it): a parameter only
                # an application can give (``override=False``) changes nothing about the table as the library ships it
                if given and p_ in given_in_package:
                    probs.append('a row registered with %s given is also written to %s (line %d): Status(code, command) -- called as before, '
                                 'without %s -- now classifies that code by a row that was meant for one %s only'
                                 % (p_, e_.callee.split('[')[0], e_.line, p_, p_))
    seen = {'general': 0, 'specific': 0}
    w1_undecided = []
    records_carry_code = False
    for e, s in stores:
        key, val = (inline_pure_calls(x, repo, 'statuses') for x in e.args)
        general = e.callee.startswith('_general')
        seen['general' if general else 'specific'] += 1
        cmd_none = any(cn in ('+%s is None' % p_cmd, '-%s is not None' % p_cmd, '-%s' % p_cmd) for cn in e.conds)
        cmd_given = any(cn in ('-%s is None' % p_cmd, '+%s is not None' % p_cmd, '+%s' % p_cmd) for cn in e.conds)
        if general and not cmd_none:
            probs.append('general table written on a path where a command may be given')
        if not general and not cmd_given:
            probs.append('command-specific table written on a path without a command')
        rf = record_fields(val)
        if rf is None or rf.get('code_type') != p_type or rf.get('description') != p_desc:
            probs.append('stored value is %s, not a record of the row\'s type and description' % val)
        # the key: ITEM(range(code, end + 1)) / ITEM([code])
        k = key
        if not general:
            want_prefix = '(%s.command_field, ' % p_cmd
            if not (k.startswith(want_prefix) and k.endswith(')')):
                probs.append('specific key is %s, not (command.command_field, code)' % k)
                continue
            k = k[len(want_prefix):-1]
        if not k.startswith('ITEM('):
            probs.append('key %s is not an element of the code range' % k)
            continue
        if rf is not None and 'code' in rf:
            records_carry_code = True
            if rf['code'] != k and k not in ('ITEM([%s])' % rf['code'], 'ITEM((%s,))' % rf['code']):
                probs.append('the record stored under code %s carries code %s: every code of a range but the first reads back as '
                             'another code' % (k, rf['code']))
        rng = k[5:-1]
        has_end = any(cn in ('+%s is not None' % p_end, '-%s is None' % p_end) for cn in e.conds)
        no_end = any(cn in ('-%s is not None' % p_end, '+%s is None' % p_end) for cn in e.conds)
        try:
            re_ = ast.parse(rng, mode='eval').body
        except SyntaxError:
            re_ = None
        while isinstance(re_, ast.Call) and norm(re_.func) in ('list', 'tuple', 'iter') and len(re_.args) == 1 and not re_.keywords:
            re_ = re_.args[0]          # the same elements in the same order
        if isinstance(re_, ast.Call) and norm(re_.func) == 'range' and len(re_.args) == 2:
            lo, hi = aff_of_term(norm(re_.args[0])), aff_of_term(norm(re_.args[1]))
            if lo != Affine.sym(('var', p_code)):
                probs.append('range starts at %s, not at the row\'s code' % norm(re_.args[0]))
            if hi != Affine.sym(('var', p_end)) + Affine.c(1):
                probs.append('range stops at %s: the row\'s end code must be included (end + 1)' % norm(re_.args[1]))
            if not has_end:
                probs.append('range used on a path where end may be None')
        elif isinstance(re_, (ast.List, ast.Tuple)) and len(re_.elts) == 1 and norm(re_.elts[0]) == p_code:
            if not no_end:
                probs.append('single code used although an end code is given')
        else:
            w1_undecided.append('the codes a row covers are %s, a form the registration rule does not read' % rng[:100])
    if not seen['general'] or not seen['specific']:
        probs.append('general/specific table writes found: %s' % seen)
    if w1_undecided and not probs:
        rep.undecided('C18.W1', '%s: %s' % (add.loc(), w1_undecided[0]))
    rep.check(not probs, 'C18.W1', 'statuses:add_status:registration', add.loc(),
              '[code, end] inclusive; general iff command is None; specific keyed (command_field, code) (%d store paths)' % len(stores),
              '; '.join(sorted(set(probs))))
    reg = repo.func('statuses', 'register_statuses')
    rep.analysed(reg)
    c = SymClient(repo, reg, event_of=lambda call, callee, *_: 'add' if callee == 'add_status' else None, hierarchy=hier)
    c.run(empty_state())
    adds = [(e, s) for e, s in c.log if e.kind == 'add']
    probs = []
    if not adds:
        probs.append('add_status never called')
    loops = [n for n in ast.walk(reg.node) if isinstance(n, ast.For)]
    if not loops or norm(loops[0].iter) != 'KNOWN_STATUSES':
        probs.append('does not iterate KNOWN_STATUSES')
    for e, s in adds:
        item = 'ITEM(KNOWN_STATUSES)'
        is_t = any(cn == '+isinstance(%s[0], tuple)' % item for cn in e.conds)
        not_t = any(cn == '-isinstance(%s[0], tuple)' % item for cn in e.conds)
        a = list(e.args)
        kw_ = dict(e.kwargs)
        if add_new and (len(a) > 5 or any(k_ in add_new for k_ in kw_)):
            continue          # a row of the new kind: judged by the "given" clause of add_status above
        for i_, p_ in enumerate(['code', 'code_type', 'description', 'end', 'command']):
            if p_ in kw_ and len(a) == i_:
                a.append(kw_[p_])
        if len(a) != 5:
            probs.append('add_status called with %d arguments' % len(a))
            continue
        if is_t:
            want = ['%s[0][0]' % item, '%s[1]' % item, '%s[2]' % item, '%s[0][1]' % item, '%s[3]' % item]
        elif not_t:
            want = ['%s[0]' % item, '%s[1]' % item, '%s[2]' % item, 'None', '%s[3]' % item]
        else:
            probs.append('row code not tested for being a (first, last) tuple')
            continue
        cmd_ok = a[4] == want[4] or (a[4].startswith('ITEM(') and want[4] in a[4])   # one call per class of a grouped row
        if a[:4] != want[:4] or not cmd_ok:
            probs.append('row fields passed as %s, add_status expects (code, type, description, end, command) = %s' % (a, want))
    called = any(isinstance(n, ast.Expr) and isinstance(n.value, ast.Call) and norm(n.value.func) == 'register_statuses'
                 for n in st.tree.body)
    if not called:
        probs.append('register_statuses() is not called at module level')
    # ... and before the first Status(...) constant is built
    rep.check(not probs, 'C18.W1', 'statuses:register_statuses:rows', reg.loc(),
              'every row of KNOWN_STATUSES registered with its five values in parameter order; called at import', '; '.join(sorted(set(probs))))
    order_ok = True
    reg_line = min([n.lineno for n in st.tree.body if isinstance(n, ast.Expr) and isinstance(n.value, ast.Call)
                    and norm(n.value.func) == 'register_statuses'] or [10 ** 9])
    first_status = min([n.lineno for n in st.tree.body if isinstance(n, ast.Assign) and isinstance(n.value, ast.Call)
                        and norm(n.value.func) == 'Status'] or [10 ** 9])
    rep.check(reg_line < first_status, 'C18.W1', 'statuses:module:registration-before-constants', st.relpath,
              'table registered before the module\'s Status constants are classified',
              'Status constants are created before register_statuses() runs: they would all be classified Unknown/Failure')

    # the registries are written by add_status only; the table they are filled from is constant
    for tname, allowed in (('_status_dict', 'statuses:add_status'), ('_general_status_dict', 'statuses:add_status'), ('KNOWN_STATUSES', None)):
        w_ = [x for x in repo.table_writers('statuses', tname) if allowed is None or not x.startswith(allowed + ':')]
        # a function added to the module's interface (``remove_status``) that nothing in the package calls changes no
        # classification the library itself makes: what an application does with it is the application's
        def unused_new_api(entry):
            fn_ = entry.split(':')[1].split(' ')[0] if ':' in entry else ''
            fi_ = st.functions.get(fn_.split('.')[0])
            if fi_ is None or not repo.is_helper(fi_) or fi_.name.startswith('_'):
                return False
            return not any(isinstance(y, ast.Name) and y.id == fi_.name and isinstance(y.ctx, ast.Load) or
                           isinstance(y, ast.Attribute) and y.attr == fi_.name for m_ in repo.modules.values() for y in ast.walk(m_.tree))
        w_ = [x for x in w_ if not unused_new_api(x)]
        rep.check(not w_, 'C18.W1', 'statuses:%s:writers' % tname, st.relpath,
                  'written by add_status only' if allowed else 'constant after import', '; '.join(w_))
    # ---------------------------------------------------------------- W2
    sc = repo.cls('statuses', 'Status')
    init = sc.find_method('__init__')
    rep.analysed(init)
    vparam, cparam = init.params[1], init.params[2]
    # a record filter applied to what the look-up found -- ``status = H(code, status)`` with H a function of this module added
    # after the pinned tree: the look-up is judged without it (W2) and the classification is judged *through* it (W3: H is
    # evaluated by constant propagation, peval.py, on every interval of the partition, split where H's constants lie)
    post_filter = None
    for st_ in list(init.node.body):
        if isinstance(st_, ast.Assign) and len(st_.targets) == 1 and isinstance(st_.targets[0], ast.Name) and isinstance(st_.value, ast.Call) \
                and isinstance(st_.value.func, ast.Name) and st_.value.func.id in st.functions and repo.is_helper(st.functions[st_.value.func.id]) \
                and not st_.value.keywords and sorted(norm(a_) for a_ in st_.value.args) == sorted([vparam, st_.targets[0].id]) \
                and len(st_.value.args) == 2:
            hf_ = st.functions[st_.value.func.id]
            post_filter = (hf_, [norm(a_) for a_ in st_.value.args].index(vparam))
            import copy as _copy2
            from ..srcmodel import FuncInfo as _FI
            node2 = _copy2.deepcopy(init.node)
            node2.body = [x for x, y in zip(node2.body, init.node.body) if y is not st_]
            init = _FI(module=init.module, cls=init.cls, name=init.name, node=node2, kind=init.kind, parent=init.parent, nested=init.nested)
            rep.analysed(hf_)
            break
    init_new = new_params(init, 3) or {}
    c = SymClient(repo, init, event_of=lambda *a: None, hierarchy=hier, inline=helper, store_event=lambda t: t.startswith('self.'))
    fin = c.final_states(c.run(empty_state(dict(init_new))))
    probs = []
    spec = '_status_dict.get((%s.command_field, %s))' % (cparam, vparam)
    gen_d = '_general_status_dict.get(%s, UNKNOWN)' % vparam
    gen = '_general_status_dict.get(%s)' % vparam
    unknown = repo.try_fold(ast.parse('UNKNOWN', mode='eval').body, st)
    # ``status_type`` / the code: attributes the constructor stores, or read-only properties over what it stores
    def attr_term(s_, name, depth=0):
        t = s_.field('EXT:self', name)
        if t is not None or depth > 4:
            return t
        pf = sc.find_method(name)
        if pf is not None and pf.kind == 'property':
            body = [x for x in pf.node.body if not (isinstance(x, ast.Expr) and isinstance(x.value, ast.Constant))]
            if len(body) == 1 and isinstance(body[0], ast.Return) and body[0].value is not None:
                import copy as _copy

                class R(ast.NodeTransformer):
                    def visit_Attribute(self_, n):
                        n = self_.generic_visit(n)
                        if isinstance(n.value, ast.Name) and n.value.id == pf.params[0]:
                            sub = attr_term(s_, n.attr, depth + 1)
                            if sub is not None:
                                return ast.parse(sub, mode='eval').body
                        return n
                from ..sym import simplify_term
                return simplify_term(norm(R().visit(_copy.deepcopy(body[0].value))))
        return None

    def drop_replace(t):
        """``X._replace(code=v).f`` is ``X.f`` for every field but code, and ``v`` for code"""
        import re as _re
        m = _re.match(r'^(\w+)\._replace\(code=(.+)\)\.(\w+)$', t)
        if m:
            return m.group(2) if m.group(3) == 'code' else '%s.%s' % (m.group(1), m.group(3))
        return t
    code_ok = True
    # ---- W5: the classification is total: no 16-bit code is refused
    rep.rule('C18.W5', 'Status(code, command) classifies every 16-bit code: no raise in the constructor (helpers included) is reachable '
             'for code 0000H or FFFFH -- conditions on the code folded at both ends of the range', 1)
    from ..arith import CannotEvaluate, eval_value
    from ..provider_model import parse_cond
    p5 = []
    n_raise = 0
    for s, how in fin:
        if not how.startswith('raise'):
            continue
        n_raise += 1
        parsed = [(pol, e_) for pol, e_ in (parse_cond(x) for x in s.conds) if e_ is not None]
        rel = [(pol, e_) for pol, e_ in parsed if any(isinstance(y, ast.Name) and y.id == vparam for y in ast.walk(e_))]
        if not rel or not any(isinstance(y, ast.Name) and y.id == vparam for y in ast.walk(parsed[-1][1])):
            continue
        for v in (0xFFFF, 0):
            holds = True
            for pol, e_ in rel:
                import copy as _copy

                class S5(ast.NodeTransformer):
                    def visit_Name(self_, n):
                        if n.id == vparam:
                            return ast.Constant(value=v)
                        vals_ = st.assigns.get(n.id)
                        if vals_ and len(vals_) == 1 and isinstance(n.ctx, ast.Load):
                            cv = repo.try_fold(vals_[0], st)
                            if type(cv) in (int, str, tuple, frozenset):
                                return ast.Constant(value=cv) if type(cv) in (int, str) else n
                            if isinstance(vals_[0], ast.Call) and norm(vals_[0].func) in ('range', 'six.moves.range', 'xrange'):
                                return ast.Call(func=ast.Name(id='range', ctx=ast.Load()), args=_copy.deepcopy(vals_[0].args), keywords=[])
                        return n
                try:
                    val = eval_value(S5().visit(_copy.deepcopy(e_)), {})
                except (CannotEvaluate, Exception):
                    holds = None
                    break
                if bool(val) != pol:
                    holds = False
                    break
            if holds:
                p5.append('Status(0x%04X, ..) raises %s (conditions %s): a legal status code is refused instead of classified'
                          % (v, how.split(':', 1)[1], ' and '.join(x for x in s.conds if vparam in x)[:160]))
                break
    rep.check(not p5, 'C18.W5', 'statuses:Status.__init__:total', init.loc(), '%d raise path(s), none for a 16-bit code' % n_raise,
              '; '.join(sorted(set(p5))))
    for s, how in fin:
        if how.startswith('raise'):
            continue
        s = type(s)(s.env, s.heap, tuple(cn[0] + inline_pure_calls(cn[1:], repo, 'statuses') if cn[:1] in '+-' else cn for cn in s.conds), s.trail, s.ret)
        tterm = attr_term(s, 'status_type')
        if tterm is not None:
            tterm = drop_replace(inline_pure_calls(tterm, repo, 'statuses'))
        if tterm is None:
            probs.append('status_type not assigned on a path')
            continue
        def _t(x):     # x is true / x is not None (a registered record is a non-empty tuple, a response class is a class: both
            # tests say the same of them)
            return ('+' + x) in s.conds or ('-not ' + x) in s.conds or ('+%s is not None' % x) in s.conds or ('-%s is None' % x) in s.conds

        def _f(x):
            return ('-' + x) in s.conds or ('+not ' + x) in s.conds or ('-%s is not None' % x) in s.conds or ('+%s is None' % x) in s.conds
        has_cmd, no_cmd = _t(cparam), _f(cparam)
        spec_hit, spec_miss = _t(spec), _f(spec)
        gen_hit, gen_miss = _t(gen), _f(gen)
        if has_cmd and spec_hit:
            src = spec
            if tterm != spec + '.code_type':
                probs.append('specific entry exists but the type comes from %s' % tterm)
        elif has_cmd and spec_miss or no_cmd:
            if gen_hit:
                src, want_t = gen, gen + '.code_type'
            elif gen_miss:
                src, want_t = 'UNKNOWN', 'UNKNOWN.code_type'
            else:
                src, want_t = gen_d, gen_d + '.code_type'
            if tterm != want_t:
                probs.append('no specific entry: type comes from %s, expected the general entry, UNKNOWN when there is none' % tterm)
        else:
            probs.append('lookup path not understood: %s' % ' '.join(s.conds))
            continue
        # int() gives the code back: the constructor keeps the argument, or the record found under that code carries it (W1)
        stored = s.field('EXT:self', '_value')
        cterm = attr_term(s, 'code')
        if stored == vparam:
            pass
        elif cterm is not None:
            ct = drop_replace(inline_pure_calls(cterm, repo, 'statuses'))
            if ct == vparam:
                pass
            elif ct == src + '.code' and src != 'UNKNOWN' and not src.endswith(', UNKNOWN)') and records_carry_code:
                pass      # the record stored under this very code: carries it, by C18.W1
            else:
                code_ok = False
                probs.append('the code read back is %s, not the constructor argument' % ct)
        else:
            code_ok = False
            probs.append('the code is not stored')
    if len(fin) < 3:
        probs.append('only %d lookup paths' % len(fin))
    rep.check(not probs, 'C18.W2', 'statuses:Status.__init__:lookup-order', init.loc(),
              'specific, else general, else UNKNOWN (%d paths)' % len(fin), '; '.join(sorted(set(probs))))
    # the five flags: as the constructor leaves them (direct assignments, or a loop over a constant table with setattr), or
    # read-only properties of the same names
    from ..status_model import flag_definitions
    flags = {}
    for f_, ce in flag_definitions(repo).items():
        if isinstance(ce, ast.Compare) and len(ce.ops) == 1 and isinstance(ce.ops[0], ast.Eq):
            l_, r_ = ce.left, ce.comparators[0]
            lit = r_ if isinstance(r_, ast.Constant) else l_ if isinstance(l_, ast.Constant) else None
            other = l_ if lit is r_ else r_
            if lit is not None and norm(other) == 'self.status_type':
                flags[f_] = lit.value
                continue
        flags[f_] = norm(ce)
    # further predicates (``is_final``) must be boolean functions of the type, checked where they are used (C16.R2, C19.U1)
    flags = {k_: v_ for k_, v_ in flags.items() if k_ in ('is_success', 'is_pending', 'is_failure', 'is_warning', 'is_cancel')}
    want_flags = {'is_success': 'Success', 'is_pending': 'Pending', 'is_failure': 'Failure', 'is_warning': 'Warning', 'is_cancel': 'Cancel'}
    rep.check(flags == want_flags, 'C18.W2', 'statuses:Status.__init__:flags', init.loc(),
              'five flags = equality of status_type with five pairwise distinct literals',
              'flags are %s, expected %s' % (flags, want_flags))
    intf = sc.find_method('__int__')
    ok = intf is not None and any(isinstance(n, ast.Return) and norm(n.value) in (
        'int(self._value)', 'self._value', 'int(self.code)', 'self.code', 'int(self._info.code)', 'self._info.code')
        for n in ast.walk(intf.node)) and code_ok
    rep.check(ok, 'C18.W2', 'statuses:Status.__int__', intf.loc() if intf else sc.loc(), 'int(Status(c)) returns the stored code',
              '__int__ does not return the stored code')

    # ---------------------------------------------------------------- W3
    rows = repo.module_const('statuses', 'KNOWN_STATUSES')
    if not isinstance(rows, list):
        raise AnalysisError('KNOWN_STATUSES does not fold to a list')
    if not (isinstance(unknown, tuple) or hasattr(unknown, '__iter__')):
        pass
    unknown_type = None
    u_expr = st.assigns.get('UNKNOWN', [None])[-1]
    urf = record_fields(u_expr) if u_expr is not None else None
    if urf is not None and 'code_type' in urf:
        try:
            unknown_type = ast.literal_eval(urf['code_type'])
        except (ValueError, SyntaxError):
            # a named constant of the module (``TYPE_FAILURE``)
            try:
                unknown_type = repo.try_fold(ast.parse(urf['code_type'], mode='eval').body, st)
            except SyntaxError:
                unknown_type = None
            if not isinstance(unknown_type, str):
                unknown_type = None
    general: List[Tuple[int, int, str, int]] = []
    specific: Dict[str, List[Tuple[int, int, str, int]]] = {}
    bad_rows = []
    from ..svc_model import status_rows
    for lo, hi, typ, cmd, i in status_rows(repo):
        if isinstance(cmd, tuple) and cmd[0] == 'malformed':
            bad_rows.append('row %d malformed' % i)
            continue
        if not (isinstance(lo, int) and isinstance(hi, int) and 0 <= lo <= hi <= 0xFFFF):
            bad_rows.append('row %d: code range %r-%r outside 16 bits or reversed' % (i, lo, hi))
            continue
        if typ not in TYPES:
            bad_rows.append('row %d (%04X): type %r is none of %s' % (i, lo, typ, TYPES))
        if cmd is None:
            general.append((lo, hi, typ, i))
        elif isinstance(cmd, str):
            specific.setdefault(cmd, []).append((lo, hi, typ, i))
        else:
            bad_rows.append('row %d: command %r is not a message class' % (i, cmd))
    rep.check(not bad_rows, 'C18.W3', 'statuses:KNOWN_STATUSES:rows', st.relpath, '%d rows well-formed' % len(rows), '; '.join(bad_rows))
    rep.notes['rows'] = len(rows)

    def lookup(table, code_lo):
        hit = None
        for lo, hi, typ, i in table:
            if lo <= code_lo <= hi:
                hit = (typ, i)   # later rows overwrite earlier ones
        return hit

    def conflicts(table):
        out = []
        for a in range(len(table)):
            for b in range(a + 1, len(table)):
                l1, h1, t1, i1 = table[a]
                l2, h2, t2, i2 = table[b]
                if max(l1, l2) <= min(h1, h2) and t1 != t2:
                    out.append('rows %d and %d overlap on %04X-%04X with types %s / %s' % (i1, i2, max(l1, l2), min(h1, h2), t1, t2))
        return out
    base = repo.cls('dimsemessages', 'DIMSEResponseMessage')
    resp = sorted(c.name for c in dm.classes.values() if c.is_subclass_of(base) and c.key != base.key and 'StatusMixin' in
                  [k.name for k in c.mro()])
    pending_want = {'CFindRSPMessage': [0xFF00, 0xFF01], 'CGetRSPMessage': [0xFF00], 'CMoveRSPMessage': [0xFF00]}
    cf = conflicts(general)
    rep.check(not cf, 'C18.W3', 'statuses:KNOWN_STATUSES:general-conflicts', st.relpath, 'no conflicting general rows', '; '.join(cf))
    pf_breaks = set()
    pf_eval = None
    if post_filter is not None:
        from ..peval import CannotEval as _CE, PEval as _PE, Raised as _Rs, Scope as _Sc
        _pe = _PE(repo, max_steps=2000000)
        _hf, _vpos = post_filter
        # where the filter's answer can change: the integer constants its code (and the functions / tables of the module it
        # reads) compares with, and their neighbours
        seen_fn = set()
        work = [_hf.node]
        while work:
            nd = work.pop()
            for x in ast.walk(nd):
                if isinstance(x, ast.Constant) and isinstance(x.value, int) and not isinstance(x.value, bool):
                    pf_breaks.update((x.value - 1, x.value, x.value + 1))
                elif isinstance(x, ast.Name) and x.id not in seen_fn:
                    seen_fn.add(x.id)
                    if x.id in st.functions:
                        work.append(st.functions[x.id].node)
                    elif x.id in st.assigns:
                        work.extend(st.assigns[x.id])
        pf_breaks = {b_ for b_ in pf_breaks if 0 < b_ < 0x10000}
        _cache = {}

        def pf_eval(code, typ):
            k_ = (code, typ)
            if k_ not in _cache:
                try:
                    rec = _pe.expr(ast.parse('s(%r, %r)' % (typ, 'x'), mode='eval').body, _Sc(st, None, {}))
                    out_ = _pe.call_function(_hf, [code, rec] if _vpos == 0 else [rec, code], {}, None)
                    _cache[k_] = out_[0] if isinstance(out_, tuple) and len(out_) == 2 and isinstance(out_[0], str) else None
                except (_CE, _Rs) as ex_:
                    raise AnalysisError('%s: the record filter %s cannot be evaluated for code %04X, type %r: %s'
                                        % (_hf.loc(), _hf.name, code, typ, ex_))
            return _cache[k_]

    def filtered(a, b, typ):
        """[(lo, hi+1, effective type)] for the codes a..b-1 all registered with ``typ``"""
        if pf_eval is None:
            return [(a, b, typ)]
        cuts = sorted({a, b} | {x for x in pf_breaks if a < x < b})
        out_ = []
        for lo_, hi_ in zip(cuts, cuts[1:]):
            t_ = pf_eval(lo_, typ)
            if out_ and out_[-1][2] == t_:
                out_[-1] = (out_[-1][0], hi_, t_)
            else:
                out_.append((lo_, hi_, t_))
        return out_
    for cname in [None] + resp:
        tab = specific.get(cname, []) if cname else []
        bounds = {0, 0x10000}
        for lo, hi, _, _ in general + tab:
            bounds.add(lo)
            bounds.add(hi + 1)
        pts = sorted(bounds)
        probs = list(conflicts(tab))
        n_int = 0
        summary = {}
        for a, b in zip(pts, pts[1:]):
            n_int += 1
            sp = lookup(tab, a)
            ge = lookup(general, a)
            typ = sp[0] if sp else (ge[0] if ge else unknown_type)
            for a2, b2, typ2 in filtered(a, b, typ):
                summary[typ2] = summary.get(typ2, 0) + (b2 - a2)
                if typ2 not in TYPES:
                    probs.append('codes %04X-%04X are classified %r: none of the five flags is true' % (a2, b2 - 1, typ2))
                elif typ2 != typ and (sp or ge):
                    probs.append('codes %04X-%04X are registered as %s but classified %s by %s' % (a2, b2 - 1, typ, typ2, post_filter[0].name))
        if filtered(0, 1, (lookup(tab, 0) or lookup(general, 0) or (unknown_type,))[0])[0][2] != 'Success':
            probs.append('0000H is not Success')
        for code in pending_want.get(cname, []):
            sp = lookup(tab, code)
            ge = lookup(general, code)
            typ = sp[0] if sp else (ge[0] if ge else unknown_type)
            typ = filtered(code, code + 1, typ)[0][2]
            if typ != 'Pending':
                probs.append('%04XH is %s for %s, must be Pending' % (code, typ, cname))
        if sum(summary.values()) != 0x10000:
            probs.append('partition does not cover the 16-bit range')
        rep.check(not probs, 'C18.W3', 'statuses:classification[%s]' % (cname or 'no command'), st.relpath,
                  '%d intervals cover 0000-FFFF: %s' % (n_int, ', '.join('%s %d' % kv for kv in sorted(summary.items(), key=lambda kv: str(kv[0])))),
                  '; '.join(sorted(set(probs))))
    # W4: a service-specific row must be a status the standard defines for that service (else the code is unknown
    # for that service and has to be classified Failure through the general path)
    from ..oracles import ps3_7
    for cname, tab in sorted(specific.items()):
        allowed = ps3_7.SERVICE_STATUS.get(cname, []) + ps3_7.GENERAL_STATUS
        probs = []
        for lo, hi, typ, i in tab:
            if not any(a0 <= lo and hi <= a1 for a0, a1 in allowed):
                probs.append('row %d registers %04X%s as %s for %s, which PS3.4/PS3.7 do not define for that service: an unknown '
                             'code must be a failure' % (i, lo, ('-%04X' % hi) if hi != lo else '', typ, cname))
        rep.check(not probs, 'C18.W4', 'statuses:KNOWN_STATUSES:service-codes[%s]' % cname, st.relpath,
                  '%d service-specific rows are codes of that service' % len(tab), '; '.join(probs))
    for cname in specific:
        if cname not in resp:
            rep.bad('C18.W3', 'statuses:KNOWN_STATUSES:%s' % cname, st.relpath, 'rows registered for %s, which is not a response class with a status' % cname)
    rep.check(unknown_type == 'Failure', 'C18.W3', 'statuses:UNKNOWN', st.relpath, 'unregistered codes are failures',
              'UNKNOWN is classified %r, must be Failure' % unknown_type)
