#!/usr/bin/env python3
"""Regenerates /verif/MANIFEST.json from the table below (keeps it schema-valid)."""
import json
import os

HERE = os.path.dirname(os.path.dirname(os.path.abspath(__file__)))
PY = '/venv/bin/python'

CLAIMS = {}   # id -> dict(text=..., note=..., technique=..., design=...)


def claim(pid, technique, text, note, design):
    CLAIMS[pid] = dict(technique=technique, text=text, note=note, design=design)


claim('C01', 'codec layout terms (abstract stream interpretation of encode/decode over provenance terms) with affine length identities; conversion terms folded at boundary constants',
      'For each of the 23 codec classes the encoder\'s byte layout and the decoder\'s read sequence are extracted as terms with '
      'symbolic lengths and compared: same struct, same attribute per position, bytes read = bytes written for every variable '
      'part, extents equal, dispatch literals agree with type codes, containers bounded, loops advance. An identity in symbolic '
      'lengths holds for every field value and item list, which sampling cannot give.',
      'Trusted: CPython struct/bytes/BytesIO; A2 stored fixed lengths at their default. Value conversions (strip, slicing, '
      'codecs, UID()) are decided by folding encoder -> field padding -> decoder -> constructor terms at boundary values '
      '(empty, one character, full field width, spaces, dots, non-ASCII); other values are not decided.', 'DESIGN.md section 3 C01, 9.6, 9.7')
claim('C02', 'encoder layout terms compared with a transcribed table of the PS3.8 9.3 / PS3.7 D.3.3 layouts; decoder conversion terms folded at boundary constants',
      'Type codes, field order, widths, big-endian byte order, which attribute carries which standard field and what each length '
      'field governs are decided for all 23 structures against the oracle; the structural part of the converse direction (any '
      'order, unknown sub-items, several transfer syntaxes/PDVs, containers respect their length) is decided on the decoder loops.',
      'Trusted: the transcription in pnd_static/oracles/ps3_8_layouts.py incl. the attribute->field map. Not decided: padding '
      'character of AE titles; value semantics. Decoder conformance follows from C01 (decoder = inverse of the encoder).', 'DESIGN.md section 3 C02')
claim('C03', 'buffer-discipline rules over path-sensitive provenance data-flow (AST), header arithmetic derived from struct layouts',
      'Decides, for all paths of the receive functions, the structural necessary conditions of segmentation independence: one '
      'buffer with three writer shapes, header arithmetic derived from the PDU header structs with strict guards, drain order, '
      'exactly one event per successful producer call, and the queue/primitive-slot pairing (queue empty whenever a producer runs). '
      'It does not run the loop on concrete partitions; it shows the places a segmentation-dependent implementation must break.',
      'Trusted: CPython bytes/struct/deque semantics; C01/C02 for the header layout. Not decided: equality of full observable '
      'behaviour over concrete partitions of concrete streams.', 'DESIGN.md section 3 C03')
claim('C04', 'exhaustive cell-by-cell comparison of extracted action effect summaries (path-sensitive effect data-flow over fsm.py; transition table read by constant propagation through its initialiser) with a transcribed PS3.8 Table 9-10',
      'All 247 cells: the 123 defined cells are compared (key set, effects with the triggering primitive type in force, next state, '
      'role branch) against the oracle transcribed from PS3.8; the 124 undefined cells are shown to have no effect by analysing the '
      'table lookup in action(). Complete for the abstraction "an action is its list of recognised effect calls".',
      'Trusted: the transcription in pnd_static/oracles/ps3_8.py (row totals cross-checked), CPython dict/queue/socket semantics. '
      'Any unrecognised side-effecting call in an action is ANALYSIS-ERROR (exit 2), not a pass.', 'DESIGN.md section 3 C04')
claim('C05', 'table conformance + control-dependence rules on event producers + inductive invariants over the extracted cell summaries',
      'Decides the glue (PDU-type/event maps, each event append control-dependent on its standard cause, timer helper shape, loop '
      'poll order, one action per popped event) and proves the invariants the statement lists (ARTIM runs exactly in Sta2/Sta13, '
      'transport present iff not idle, P-DATA only when established, no indication in Sta13) inductively over all 123 cells, i.e. '
      'for every history of the extracted machine.',
      'Not decided: step-by-step equality with a reference model on concrete wire bytes and real time; interleaving with DIMSE '
      'reassembly. Trusted: oracle transcription, CPython library semantics.', 'DESIGN.md section 3 C05')
claim('C06', 'arithmetic/ordering rules on chunks, fragment, fragment_file and DIMSEMessage.encode (affine normal forms, provenance terms); overhead derived from the codec layouts',
      'Decides for every maximum, length and context id: fragment width = maximum - 6 with 6 derived from the PDV/P-DATA layouts '
      '(bound holds and is tight), tiling without gap or overlap, last flag exactly "pos + width < len" (bytes) / "one more byte" '
      '(file), flag literals (1,3)/(0,2), command before data, context id and control byte per PDV, one PDV per PDU, bytes and '
      'file variants agree, and the limit handed to encode is the negotiated one at its single call site.',
      'Trusted: CPython range/slice/file semantics, pydicom command-set encoding. Not decided: byte-exactness of the command set.',
      'DESIGN.md section 3 C06')
claim('C07', 'finite typestate evaluation (interprocedural) of DIMSEDecoder.process over all abstract (flags x marker x no-data-set) cases; message-class selection per command field by constant propagation; provenance and wiring rules',
      'The completion predicate is evaluated exhaustively over the abstract cases by abstract interpretation of the per-PDV body '
      '(no execution); marker sets are checked against the encoder\'s flags, the control-byte strip against its size, delivery is '
      'dominated by completion and followed by reset, MESSAGE_TYPE agrees with the 23 command_field constants, and the '
      'file-reception wiring (context, start position, flush, meta header syntax) is checked by provenance.',
      'Not decided: exactness as behaviour over concrete PDV groupings; readability of the produced file by pydicom.',
      'DESIGN.md section 3 C07')
claim('C08', 'table rules against PS3.7 E.1 + shape rules on set_length, the data_set setter and Association.send; pydicom dictionary and ordering read by parsing',
      'Decides for all 23 classes and all field values: command field constants, tag bound to each property, keywords exist in '
      'group 0000 with CommandGroupLength first, implicit-VR-little-endian wiring, group length sums every element except '
      '(0000,0000) however the set was built, computed before every encode, data-set flag written on both outcomes of the test '
      'encode uses. Re-sending is covered together with C16.R4 (no mutation while the lazy encoder is pending).',
      'Trusted: pydicom element encoding and ascending tag order (sorting re-checked by parsing pydicom/dataset.py).',
      'DESIGN.md section 3 C08')
claim('C09', 'per-iteration path analysis of the context loop in AssociationAcceptor.accept with provenance terms; provenance of the reply fields',
      'Every path through one iteration of the negotiation loop is enumerated: exactly one answer with the context\'s own id, '
      'result 0 iff (abstract syntax served as SCP and a transfer syntax proposed for this context is supported), the first such '
      'syntax returned, routing tables written on exactly that path with the same key and syntax, the provider given the same '
      'table, _loop serving only recorded contexts, reply header copied from the request.',
      'Trusted: CPython membership tests and list ordering. Holds for every request and configuration because the paths do not '
      'depend on them.', 'DESIGN.md section 3 C09')
claim('C10', 'control-dependence rules on every assignment of the negotiated limit (sibling cross-check), zero-safety of its uses, evaluation of the extracted fragment-width term at the boundary values of the limit',
      'Every adoption of the peer\'s value is shown conditional on peer != 0 and (own > peer or own == 0) on both sides; the '
      'announced values are the own (possibly clamped) limit; the limit reaches encode at its single call site; a limit of 0 is '
      'treated as "no limit" by both fragmenters and by the provider\'s socket read; the fragment-width term of both fragmenters '
      'satisfies 1 <= width <= limit - overhead at the boundary values 0, overhead+1 .. 2^32-1.',
      'Not decided: peers announcing 1..6. Trusted: PS3.8 Annex D.1.', 'DESIGN.md section 3 C10')
claim('C11', 'shape rules on id allocation (parity induction), provenance of the request fields and of the accepted-context tables, exception-flow of get_scu',
      'Ids: 1 or max+2 with step 2 (odd, increasing, distinct); request fields (AE titles, application context, maximum length '
      'first, one context per configured entry with all its syntaxes); single guarded writer of the accepted-context tables keyed '
      'through the proposed list; lookup binds the stored context and converts a miss into ClassNotSupportedError. The missing '
      'bound of 255 on ids is reported as a known finding.',
      'Not decided: duplicate SOP classes across several add_* calls (allowed by the standard).', 'DESIGN.md section 3 C11')
claim('C12', 'interprocedural may-raise analysis (exception-flow over flow.py) with a frozen library exception model; handler shape and blocking-call rules',
      'Shows that no exception raised by peer-driven code leaves the provider thread, that an undecodable PDU becomes exactly Evt19, '
      'that a failing reassembly runs the abort action, that what is sent on Evt19 is a freshly built A-ABORT, that the last-resort '
      'handler ends the association in order, and that every blocking call in the loop has a timeout.',
      'Assumes the frozen may-raise model of library calls (printed in the evidence) - complete catch-all handlers make it '
      'irrelevant where they exist. Not decided: behaviour of pydicom on arbitrary bytes beyond "may raise Exception".', 'DESIGN.md section 3 C12')
claim('C13', 'blocking-call guard rule, table exit rows, typestate "user informed" over cell summaries, must-pass-through of stop/kill on all exits',
      'Decides: no unguarded blocking read; exit rows Evt17/Evt18 exist and lead to idle; entering idle releases the transport and '
      'every ending tells the user unless the user started it; run sets the stopped flag and closes the transport on every exit; '
      'Association.kill is reached on every exit of handle()/request_association(); its wait is bounded; the ARTIM timer, queues '
      'and stop flag are created per provider (no shared default / class-level object).',
      'Not decided: wall-clock bounds and OS socket behaviour. Each loop iteration is bounded under the assumption that sendall '
      'makes progress.', 'DESIGN.md section 3 C13')

claim('C14', 'provenance of (result, source, reason) along the refusal chain; path rules on _establish, handle, _handle_errors, request_association',
      'Position-by-position provenance: application error -> reject() -> A-ASSOCIATE-RJ constructor -> (C02 wire positions) -> '
      'requestor error, incl. the exception classes\' own parameter->attribute maps; refusal re-raised, accept() and _loop '
      'unreachable after it; RELEASE-RQ/ABORT/RJ mapped to the right errors with fields in order; release answered with '
      'A-RELEASE-RP; the context manager releases on normal exit, aborts and re-raises on exception.',
      'Trusted: C02 for wire positions. Not decided: timing relative to DIMSE traffic.', 'DESIGN.md section 3 C14')
claim('C15', 'path rule on the storage-file creation (exclusive create or proven-absent name), provenance of status/UIDs in storage_scu/storage_scp, flag-order rule on every dsutils call site',
      'ONLY these clauses are decided: (V1) the directory-backed get_file never opens an existing file for writing; (V2) status and '
      'SOP class/instance provenance in the storage user and provider; (V3) the application receives the received data set object '
      'itself and all 14 dsutils call sites of sopclass.py pass the negotiated syntax flags in the right order. The end-to-end '
      'integrity of the byte path is the composition of C01, C06, C07 and is not re-decided here.',
      'NOT decided (outside static analysis): integrity through the whole stack over real loopback TCP with real threads, sizes and '
      'transfer syntaxes; readability of stored files by pydicom.', 'DESIGN.md section 3 C15')
claim('C16', 'per-iteration path analysis of provider and user loops with provenance terms; ownership (no write after send) rule over all send sites',
      'Provider: one response per match carrying that match\'s status and data set, exactly one final non-pending response (also '
      'when the application signals an error); user: one receive and one yield per iteration, stop iff not pending; worklist and '
      'c_find variants forward pairs unchanged; no message object is modified after it was handed to the lazy encoder, incl. via '
      'loop back-edges (the defect that made P0,P1,P2 arrive as P2,P2,P2).',
      'Not decided: multi-fragment behaviour on the wire (C06/C07). Pending classification is C18\'s.', 'DESIGN.md section 3 C16')
claim('C17', 'provenance of every response field at each of the 7 response construction sites; exception-flow rule for handler calls; answered-on-every-path rule',
      'For each provider callable and every send path: context id, Message ID Being Responded To, SOP class/instance, response '
      'type = request | 8000H, status from the handler or a failure-class constant on the EventHandlingError edge, exactly one '
      'final response on every normal path, every written field backed by the class\'s command_fields.',
      'Assumes applications signal failure only through EventHandlingError (documented). The N-ACTION response uses the '
      'well-known Storage Commitment Push Model instance (PS3.4 J.3) - frozen exception.', 'DESIGN.md section 3 C17')
claim('C18', 'shape rules (provenance) on add_status/register_statuses/Status.__init__ + interval arithmetic on the folded KNOWN_STATUSES table',
      'Exhaustive over 65536 codes x 11 response classes + none without enumerating codes: the registration and lookup '
      'functions are shown to implement inclusive ranges and specific-before-general-before-UNKNOWN, then the 57 rows are '
      'partitioned into intervals per class and every interval is checked (one of five types, 0000H Success, pending codes, '
      'no conflicting rows, UNKNOWN is Failure); int() returns the code.',
      'Trusted: CPython dict/range semantics. Not decided: agreement of general codes with PS3.7 Annex C (not stated).',
      'DESIGN.md section 3 C18')

claim('C19', 'per-iteration path analysis of qr_get_scu and qr_move_scp; induction-variable closed form for the progress counters',
      'C-GET user: each received C-STORE request answered once on its context, at most one yield, loop left only on a non-pending '
      'C-GET response. C-MOVE provider: one store per instance on the sub-association to the application\'s destination; at the '
      'k-th report completed = k and remaining = total - k (counter starts at 0, +1 before the fields are filled); exactly one '
      'final response on every path incl. nothing-to-move and application errors.',
      'Not decided: behaviour of the sub-association itself (C15/C11).', 'DESIGN.md section 3 C19')
claim('C20', 'sharing inventory: who-may-write rules over a name-based call graph, per-instance-state and aliasing rules, thread-local rule',
      'Necessary conditions only: message ids live in a threading.local; every per-association class creates its mutable state '
      'per instance; the entity\'s shared configuration is written only by the configuration API, unreachable from association '
      'threads; the live context definition list is only ever copied under the lock; no module/class-level container is mutated '
      'from association-reachable code; storage files are created atomically.',
      'NOT decided (outside static analysis): behaviour under concrete thread interleavings and independence of failures. '
      'Zero-expected rules carry built-in positive examples.', 'DESIGN.md section 3 C20')

NOT_YET = 'check not built yet (build in progress, see DESIGN.md section 8)'


def main():
    props = [json.loads(l) for l in open(os.path.join(HERE, 'properties.jsonl'))]
    checks = []
    na = []
    for p in props:
        pid = p['id']
        if pid in CLAIMS:
            c = CLAIMS[pid]
            checks.append({
                'property_id': pid,
                'quick_cmd': '%s -m pnd_static.check --property %s --tier quick' % (PY, pid),
                'thorough_cmd': '%s -m pnd_static.check --property %s --tier thorough' % (PY, pid),
                'evidence_file': '/verif/evidence/%s.json' % pid,
                'replay_cmd_template': '%s -m pnd_static.check --replay {path}' % PY,
                'engine': 'pnd_static',
                'level_claimed': {'category': 'other', 'text': c['text'], 'design_ref': c['design']},
                'level_note': c['note'],
                'technique': c['technique'],
            })
        else:
            na.append({'property_id': pid, 'reason': NOT_YET})
    m = {
        'version': 1,
        'setup_cmd': 'true',
        'hooks': {
            'guard': 'BLANEBF_PYNETDICOM2_VERIF',
            'enable': 'none needed: the checks parse /repo sources, nothing is instrumented or executed',
            'baseline_off_cmd': 'cd /repo && /venv/bin/python -m pytest -ra -q -p no:cacheprovider --timeout=900 --continue-on-collection-errors',
            'source_commits': [],
            'add_only': True,
        },
        'engines': [{
            'name': 'pnd_static', 'path': '/verif/pnd_static',
            'serves_properties': sorted(CLAIMS),
            'kind_free_text': 'repository-specific static analysis on the Python ast: source model + constant folding, '
                              'path-sensitive data-flow over structured control flow, provenance terms, effect summaries, '
                              'layout terms, interval arithmetic; oracles transcribed from PS3.7/PS3.8',
        }],
        'checks': checks,
        'notes': 'Static analysis only (see DESIGN.md). Exit 0 pass / 1 VIOLATION / 2 ANALYSIS-ERROR. Known findings and '
                 'fixed defects are listed in /verif/known_findings.json.',
        'not_applicable': na,
    }
    with open(os.path.join(HERE, 'MANIFEST.json'), 'w') as f:
        json.dump(m, f, indent=1)
    print('MANIFEST: %d checks, %d not applicable' % (len(checks), len(na)))


if __name__ == '__main__':
    main()
