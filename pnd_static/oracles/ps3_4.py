"""Transcription of PS3.4 Table J.3-2 (Storage Commitment Result - Event Information), by hand.

  Event Type 1, Storage Commitment Request Successful:
      Transaction UID (0008,1195)          1
      Referenced SOP Sequence (0008,1199)  1
  Event Type 2, Storage Commitment Request Complete - Failures Exist:
      Transaction UID (0008,1195)          1
      Referenced SOP Sequence (0008,1199)  1C  "Required if there are SOP Instances for which commitment succeeded"
      Failed SOP Sequence (0008,1198)      1

(keywords as pydicom spells them)"""

COMMITMENT_EVENT_REQUIRED = {
    1: frozenset(['TransactionUID', 'ReferencedSOPSequence']),
    2: frozenset(['TransactionUID', 'FailedSOPSequence']),
}
COMMITMENT_EVENT_CONDITIONAL = {
    1: frozenset(),
    2: frozenset(['ReferencedSOPSequence']),
}
COMMITMENT_EVENT_ATTRIBUTES = frozenset(['TransactionUID', 'ReferencedSOPSequence', 'FailedSOPSequence'])
