"""C08 -- transmitted command sets are well-formed (group length, type, data-set flag).

Decided: implicit-VR-little-endian wiring, command field constants and tag-bound properties,
group-length exclusion rule, computed-before-every-send, data-set flag maintained both ways,
no mutation of a message while its lazy encoder is pending (C16.R4).
Not decided: ascending tag order and element byte lengths (pydicom, whose sorting is
re-checked by parsing the installed source)."""
from __future__ import annotations

import ast
import os
from typing import Dict

from ..fsm_model import exc_hierarchy
from ..oracles import ps3_7
from ..srcmodel import AnalysisError, ClassRef, norm
from ..sym import SymClient, empty_state
from .c06 import ev_kind


def pydicom_dir() -> str:
    import importlib.util
    spec = importlib.util.find_spec('pydicom')
    if spec is None or not spec.submodule_search_locations:
        raise AnalysisError('pydicom is not installed in this interpreter: cannot read its dictionary')
    return list(spec.submodule_search_locations)[0]


def pydicom_group0() -> Dict[str, int]:
    """keyword -> tag for group 0000, read from pydicom/_dicom_dict.py by parsing (not importing)"""
    path = os.path.join(pydicom_dir(), '_dicom_dict.py')
    with open(path) as f:
        tree = ast.parse(f.read())
    out = {}
    for st in tree.body:
        tgt = st.targets[0] if isinstance(st, ast.Assign) else getattr(st, 'target', None)
        if tgt is not None and norm(tgt) == 'DicomDictionary' and isinstance(st.value, ast.Dict):
            for k, v in zip(st.value.keys, st.value.values):
                if isinstance(k, ast.Constant) and isinstance(k.value, int) and (k.value >> 16) == 0 \
                        and isinstance(v, ast.Tuple) and len(v.elts) >= 5 and isinstance(v.elts[4], ast.Constant):
                    out[v.elts[4].value] = k.value
    if 'CommandGroupLength' not in out:
        raise AnalysisError('pydicom dictionary could not be read')
    return out


def pydicom_order_facts() -> Dict[str, bool]:
    """Dataset.values() is the underlying dict's view (insertion order); iterating a Dataset is tag-sorted."""
    path = os.path.join(pydicom_dir(), 'dataset.py')
    with open(path) as f:
        tree = ast.parse(f.read())
    facts = {'values_is_dict_view': False, 'iter_sorted': False}
    for c in tree.body:
        if isinstance(c, ast.ClassDef) and c.name == 'Dataset':
            for m in c.body:
                if isinstance(m, ast.FunctionDef) and m.name == 'values':
                    rets = [n for n in ast.walk(m) if isinstance(n, ast.Return)]
                    facts['values_is_dict_view'] = any(norm(r.value) == 'self._dict.values()' for r in rets if r.value)
                if isinstance(m, ast.FunctionDef) and m.name == '__iter__':
                    facts['iter_sorted'] = any(isinstance(n, ast.Call) and norm(n.func) == 'sorted' for n in ast.walk(m))
    return facts


def ps3_7_no_dataset() -> int:
    return 0x0101      # PS3.7 6.3.1 / E.1: CommandDataSetType 0101H = no data set present


def run(repo, rep):
    from ..pitfalls import memo_rule as _memo_rule
    _memo_rule(repo, rep, 'C08', 'C08.Z1')
    from ..pitfalls import log_rule as _log_rule
    _log_rule(repo, rep, 'C08', 'C08.Z2')
    from ..api_pitfalls import truth_rule as _truth_rule
    _truth_rule(repo, rep, 'C08', 'C08.Z4')
    from ..api_pitfalls import attribute_rule as _attribute_rule
    _attribute_rule(repo, rep, 'C08', 'C08.Z5')
    from ..pitfalls import zero_rule as _zero_rule
    _zero_rule(repo, rep, 'C08', 'C08.Z3')
    dm = repo.module('dimsemessages')
    hier = exc_hierarchy(repo)
    base = repo.cls('dimsemessages', 'DIMSEMessage')
    kw2tag = pydicom_group0()
    rep.trust('PS3.7 Table E.1-1 and section E.1 as transcribed in pnd_static/oracles/ps3_7.py')
    rep.trust('pydicom write_dataset / write_data_element (element encoding, ascending tag order); its data dictionary and '
              'Dataset ordering are read by parsing the installed source')
    rep.rule('C08.M0', 'command sets are written, measured and parsed as implicit VR little endian, flags in parameter order', 4)
    rep.rule('C08.M1', 'command_field of each of the 23 classes = PS3.7 Table E.1-1; every dimse_property is bound to the '
             'PS3.7 element of that attribute; command_fields keywords exist in group 0000 and start with CommandGroupLength', 23)
    rep.rule('C08.M2', 'set_length sums the encoded length of every element except (0000,0000) and stores it there', 1)
    rep.rule('C08.M3', 'Association.send computes the group length before encoding, on the object it encodes', 1)
    rep.rule('C08.M5', 'the stored data set is written only through the data_set setter (and initialised to "none" by the '
             'constructor): nothing else can make the Command Data Set Type disagree with what encode() will emit', 1)
    rep.rule('C08.M4', 'the data_set setter sets CommandDataSetType on both outcomes of the test encode() uses', 1)

    # ---------------------------------------------------------------- M7: the writer is fresh, or per-thread and emptied first
    rep.rule('C08.M7', 'the buffer dsutils hands to pydicom\'s writers is created in the call, or -- when it is kept for re-use -- held per '
             'thread and emptied before the first write of the call: no bytes of another thread or of an earlier, failed encode get into a '
             'command set (and into the group length computed from it)', 1)
    from ..pitfalls import writer_reuse_problems
    sh_, st_, nw_ = writer_reuse_problems(repo)
    rep.check(not (sh_ or st_), 'C08.M7', 'dsutils:writers', repo.module('dsutils').relpath, '%d write sites: buffers fresh, or per-thread and '
              'emptied first' % nw_, '; '.join(sh_ + st_))
    # ---------------------------------------------------------------- M8: one message, one moment
    rep.rule('C08.M8', 'encode() describes one state of the message: it is a generator (command set, Command Data Set Type and data set are '
             'all read while the PDUs are pulled) or it reads them all at the call; a plain function that encodes the command set at the '
             'call and returns a generator reading self again later can pair the flag of one state with the data set of another', 1)
    from ..pitfalls import phase_split_problems
    from ..srcmodel import Repo as _Repo
    raw_ = _Repo(normalize=False)
    p8_, n8_ = [], 0
    base_ = raw_.cls('dimsemessages', 'DIMSEMessage')
    for c_ in [base_] + [k_ for k_ in raw_.module('dimsemessages').classes.values() if k_.is_subclass_of(base_) and k_.key != base_.key]:
        if 'encode' in c_.methods:
            pr_, nl_ = phase_split_problems(raw_, c_.methods['encode'])
            p8_ += pr_
            n8_ += nl_
    rep.check(not p8_, 'C08.M8', 'dimsemessages:DIMSEMessage.encode:one-moment', base_.loc(),
              'encode() reads the message in one phase (%d lazy part(s) returned by a plain function)' % n8_, '; '.join(p8_))
    # ---------------------------------------------------------------- M0
    ds = repo.module('dsutils')
    for fname, inner in (('encode', None), ('encode_element', None), ('decode', 'read_dataset')):
        f = repo.func('dsutils', fname)
        rep.analysed(f)
        ps = f.params
        probs = []
        if len(ps) != 3:
            probs.append('signature %s' % ps)
        else:
            iv, le = ps[1], ps[2]
            if fname == 'decode':
                calls = [n for n in ast.walk(f.node) if isinstance(n, ast.Call) and norm(n.func).endswith('read_dataset')]
                if not calls or [norm(a) for a in calls[0].args[1:3]] != [iv, le]:
                    probs.append('read_dataset is not called with (%s, %s) in that order' % (iv, le))
            else:
                # provenance: the buffer handed to the pydicom writer carries the two flags from the parameters
                cl0 = SymClient(repo, f, event_of=lambda call, callee, *_: 'write' if callee.rsplit('.', 1)[-1] in
                                ('write_dataset', 'write_data_element') else None, hierarchy=exc_hierarchy(repo))
                cl0.run(empty_state())
                writes = [(e_, s_) for e_, s_ in cl0.log if e_.kind == 'write']
                if not writes:
                    probs.append('the pydicom writer is never called')
                for e_, s_ in writes:
                    buf = e_.args[0] if e_.args else '?'
                    got = [s_.field('EXT:' + buf, 'is_implicit_VR'), s_.field('EXT:' + buf, 'is_little_endian')]
                    # (the writer only asks for the truth of its flags: bool(x) carries x)
                    got = [g_[5:-1] if isinstance(g_, str) and g_.startswith('bool(') and g_.endswith(')') else g_ for g_ in got]
                    if got != [iv, le]:
                        probs.append('writer flags are set from %s / %s' % (got[0], got[1]))
        rep.check(not probs, 'C08.M0', 'dsutils:%s:flag-wiring' % fname, f.loc(),
                  '(x, is_implicit_vr, is_little_endian) wired in that order', '; '.join(probs))
    # ---------------------------------------------------------------- M6: ascending tag order on the wire
    rep.rule('C08.M6', 'the command bytes that are fragmented are written by pydicom\'s dataset writer (ascending tag order whatever '
             'the order the elements were created in) from the whole command set', 1)
    from .c06 import ev_kind as _ev6
    from .c06 import _with_filled_containers
    enc0_written = repo.func('dimsemessages', 'DIMSEMessage.encode')
    enc0 = _with_filled_containers(enc0_written)
    c6 = SymClient(repo, enc0, event_of=_ev6, hierarchy=hier, inline=repo.is_helper)
    c6.run(empty_state())
    cmd_srcs = sorted({e_.args[0] for e_, _s in c6.log if e_.kind in ('fragment', 'fragment_file') and e_.args
                       and 'command_set' in e_.args[0] and 'data_set' not in e_.args[0]})
    m6_undecided = False
    filtered_copy = False
    if not cmd_srcs:
        raise AnalysisError('%s: no fragmenter call on the command set found' % enc0.loc())
    for src in cmd_srcs:
        if src.replace(' ', '') in ('dsutils.encode(self.command_set,True,True)', 'dsutils.encode(self.command_set,is_implicit_vr=True,is_little_endian=True)'):
            rep.ok('C08.M6', 'dimsemessages:DIMSEMessage.encode:writer', enc0.loc(), 'command bytes = dsutils.encode(self.command_set, True, True)')
        elif src.startswith('dsutils.encode(self.command_set'):
            rep.ok('C08.M6', 'dimsemessages:DIMSEMessage.encode:writer', enc0.loc(), 'command bytes = %s (flags: C08.M0)' % src)
        elif src.replace(' ', '') == 'dsutils.encode(__filled_from__(self.command_set),True,True)':
            # a data set filled with (some of) the elements of the command set, written by the dataset writer: ascending tag order
            # all the same; *which* elements are sent must be the ones set_length measures (M9)
            filtered_copy = True
            rep.ok('C08.M6', 'dimsemessages:DIMSEMessage.encode:writer', enc0.loc(),
                   'command bytes = dsutils.encode(<data set filled from self.command_set>, True, True); selection judged by C08.M9')
        else:
            m6_undecided = True
            rep.undecided('C08.M6', '%s: the command set is serialised by %s, not by the dataset writer: the order of the elements on the '
                          'wire (and that they are the elements set_length measured) is not modelled' % (enc0.loc(), src[:160]))
    probs = []
    sites = 0
    for fi in [repo.func('dimsemessages', 'DIMSEMessage.encode'), repo.func('dimsemessages', 'DIMSEMessage.set_length'),
               repo.func('fsm', 'DIMSEDecoder.process')]:
        rep.analysed(fi)
        for n in [x for hf in repo.helper_closure(fi) for x in ast.walk(hf.node)]:
            new_ds_helper = isinstance(n, ast.Call) and norm(n.func).startswith('dsutils.') and len(n.args) == 3 and \
                norm(n.func).split('.', 1)[1] in ds.functions and repo.is_helper(ds.functions[norm(n.func).split('.', 1)[1]])
            # (the reader dsutils.decode wraps, met directly when a new dsutils helper was expanded in place: same three arguments)
            reader = isinstance(n, ast.Call) and norm(n.func).split('.')[-1] == 'read_dataset' and len(n.args) == 3 \
                and norm(n.func).split('.')[0] in ('filereader', 'pydicom')
            if isinstance(n, ast.Call) and (norm(n.func) in ('dsutils.encode', 'dsutils.encode_element', 'dsutils.decode') or new_ds_helper or reader):
                a0 = norm(n.args[0]) if n.args else ''
                if n.args and isinstance(n.args[0], ast.Name):
                    # a local holding the argument: what it was computed from
                    for hf2 in repo.helper_closure(fi):
                        for asg in ast.walk(hf2.node):
                            if isinstance(asg, ast.Assign) and len(asg.targets) == 1 and norm(asg.targets[0]) == a0:
                                a0 = a0 + ' ' + norm(asg.value)
                if 'command_set' in a0 or fi.name == 'set_length':
                    sites += 1
                    flags = [repo.try_fold(a, fi.module, fi.cls) for a in n.args[1:3]]
                    if flags != [True, True]:
                        probs.append('%s: command set handled with flags %s, PS3.7 6.3.1 requires implicit VR little endian'
                                     % (fi.qualname, [norm(a) for a in n.args[1:3]]))
    if sites < 3 and not m6_undecided and not probs:
        # (a count below what was confirmed on the pinned tree means sites moved where the rule does not look: no verdict)
        rep.undecided('C08.M0', 'only %d command-set encode / decode sites found (3 on the pinned tree): some site is written in a form '
                      'the rule does not recognise' % sites)
    rep.check(not probs, 'C08.M0', 'dimsemessages:command-set-syntax', dm.relpath,
              '%d command-set encode/measure/decode sites pass (True, True)' % sites, '; '.join(probs))

    # ---------------------------------------------------------------- M1
    classes = [c for c in dm.classes.values() if c.is_subclass_of(base) and 'command_field' in c.attrs and c.key != base.key]
    for name, code in sorted(ps3_7.COMMAND_FIELD.items()):
        c = dm.classes.get(name)
        if c is None:
            rep.bad('C08.M1', 'dimsemessages:%s:command_field' % name, dm.relpath, 'message class %s missing' % name)
            continue
        probs = []
        cf = repo.try_fold(c.attrs['command_field'], dm, c) if 'command_field' in c.attrs else None
        if cf != code:
            probs.append('command_field = %s, PS3.7 Table E.1-1: %04XH' % ('%04XH' % cf if isinstance(cf, int) else cf, code))
        fields = repo.try_fold(c.attrs['command_fields'], dm, c) if 'command_fields' in c.attrs else None
        if not isinstance(fields, list) or not fields:
            probs.append('command_fields is not a list literal')
        else:
            if fields[0] != 'CommandGroupLength':
                probs.append('command_fields does not start with CommandGroupLength (%s)' % fields[0])
            for kw in fields:
                if kw not in kw2tag:
                    probs.append('%r is not a keyword of group 0000 in pydicom\'s dictionary: setattr would create a plain '
                                 'attribute, not an element' % kw)
                elif ps3_7.ELEMENTS.get(kw2tag[kw] & 0xFFFF) != kw:
                    probs.append('%r is tag %08X in pydicom but PS3.7 names that element %s' % (kw, kw2tag[kw], ps3_7.ELEMENTS.get(kw2tag[kw] & 0xFFFF)))
            if len(set(fields)) != len(fields):
                probs.append('duplicate keyword in command_fields')
        # properties visible on this class
        for k in c.mro():
            for attr, val in k.attrs.items():
                if isinstance(val, ast.Call) and norm(val.func) == 'dimse_property' and val.args:
                    if c.find_attr(attr)[0].key != k.key:
                        continue  # overridden further down
                    tag = repo.try_fold(val.args[0], dm, k)
                    if attr == 'sop_class_uid':
                        want = 0x0003 if name in ps3_7.REQUESTED_SOP_CLASS_MESSAGES else 0x0002
                    else:
                        want = ps3_7.PROPERTY_ELEMENT.get(attr)
                    if want is None:
                        probs.append('property %s has no PS3.7 element assigned in the oracle' % attr)
                    elif tag != (0x0000, want):
                        probs.append('property %s is bound to %s, PS3.7: (0000,%04X) %s' % (attr, tag, want, ps3_7.ELEMENTS[want]))
        rep.check(not probs, 'C08.M1', 'dimsemessages:%s:command-elements' % name, c.loc(),
                  'command field %04XH, %d keywords, properties bound to their PS3.7 elements' % (code, len(fields or [])),
                  '; '.join(probs))
    # __init__ builds the command set from these tables
    init = base.find_method('__init__')
    rep.analysed(init)
    probs = []
    ci = SymClient(repo, init, event_of=lambda call, callee, *_: 'setattr' if callee == 'setattr' else None,
                   hierarchy=exc_hierarchy(repo))
    fin_i = ci.final_states(ci.run(empty_state()))
    cs_param = init.params[1] if len(init.params) > 1 else 'command_set'
    n_blank = 0
    for s_, how in fin_i:
        if how.startswith('raise'):
            continue
        obj = s_.field('EXT:self', 'command_set')
        if obj == cs_param:
            continue        # the caller's (decoded) command set is adopted as is
        n_blank += 1
        if obj is None:
            probs.append('a path leaves command_set unset')
            continue
        if any(cn in ('+self.command_field is None', '-self.command_field is not None') for cn in s_.conds):
            continue      # the abstract base (no command field of its own): not a message that is sent
        if s_.field('EXT:' + obj, 'CommandField') not in ('self.command_field', 'int(self.command_field)'):
            probs.append('CommandField is not set from the class constant')
        if s_.field('EXT:' + obj, 'CommandDataSetType') != str(ps3_7_no_dataset()):
            probs.append('a new message does not start as "no data set" (CommandDataSetType %s)'
                         % s_.field('EXT:' + obj, 'CommandDataSetType'))
        sa = [e_ for e_, _st in ci.log if e_.kind == 'setattr' and len(e_.args) >= 2 and e_.args[0] in (obj, 'self.command_set')
              and e_.args[1] == 'ITEM(self.command_fields)']
        dyn = [e_ for e_, _st in ci.log if e_.kind == 'setattr' and len(e_.args) >= 2 and e_.args[0] in (obj, 'self.command_set')
               and e_.args[1] != 'ITEM(self.command_fields)' and not (e_.args[1][:1] in '\'"')]
        if dyn:
            # element names computed at run time from something else than the field list: which elements exist is not known
            rep.undecided('C08.M1', '%s: elements of a blank command set are created under computed names (%s)' % (init.loc(), dyn[0].args[1][:120]))
            probs = []
            n_blank = -1
            break
        if not sa:
            probs.append('the elements of command_fields are not created')
    if n_blank == 0:
        probs.append('no path creates a blank command set')
    if n_blank >= 0:
      rep.check(not probs, 'C08.M1', 'dimsemessages:DIMSEMessage.__init__:command-set-construction', init.loc(),
              'CommandField from command_field; one element per keyword of command_fields', '; '.join(probs))

    # ---------------------------------------------------------------- M2
    sl = base.find_method('set_length')
    if sl is None:
        raise AnalysisError('DIMSEMessage.set_length not found')
    rep.analysed(sl)
    probs = []
    gens = [n for n in ast.walk(sl.node) if isinstance(n, (ast.GeneratorExp, ast.ListComp))]
    fors = [n for n in ast.walk(sl.node) if isinstance(n, ast.For)]
    src_expr, filt, elt = None, [], None
    if gens:
        g = gens[0]
        src_expr, filt, elt = g.generators[0].iter, g.generators[0].ifs, g.elt
        var = g.generators[0].target
    elif fors:
        src_expr, var = fors[0].iter, fors[0].target
        filt = [n.test for n in fors[0].body if isinstance(n, ast.If)]
    if src_expr is None:
        raise AnalysisError('%s: iteration over the command set not found in set_length' % sl.loc())
    facts = pydicom_order_facts()
    rep.notes['pydicom_order_facts'] = facts
    # peel list(...), [k:] and sorted()
    cur = src_expr
    skip = 0
    sorted_src = False
    for _ in range(5):
        if isinstance(cur, ast.Subscript) and isinstance(cur.slice, ast.Slice):
            lo = cur.slice.lower.value if isinstance(cur.slice.lower, ast.Constant) else 0
            if cur.slice.upper is not None or cur.slice.step is not None:
                probs.append('slice %s drops elements at the end' % norm(cur))
            skip += lo or 0
            cur = cur.value
        elif isinstance(cur, ast.Call) and norm(cur.func) in ('list', 'tuple', 'iter') and len(cur.args) == 1:
            cur = cur.args[0]
        elif isinstance(cur, ast.Call) and norm(cur.func) == 'sorted':
            sorted_src = True
            cur = cur.args[0]
        else:
            break
    src_txt = norm(cur)
    m2_undecided = False
    if not src_txt.startswith('self.command_set'):
        m2_undecided = True
        rep.undecided('C08.M2', '%s: the elements measured come from %s, not from the command set itself' % (sl.loc(), src_txt[:120]))
    by_tag = False
    # ``if elem.tag == (0, 0): continue`` in a loop excludes what ``if elem.tag != (0, 0)`` in a comprehension includes
    skipping = [n.test for n in (fors[0].body if fors and not gens else []) if isinstance(n, ast.If) and not n.orelse
                and len(n.body) == 1 and isinstance(n.body[0], ast.Continue)]
    for t in filt:
        tt = norm(t)
        excl = ('!=' in tt or 'not in' in tt or '>' in tt) if not any(t is k_ for k_ in skipping) else \
            ('==' in tt or (' in ' in tt and 'not in' not in tt))
        if '.tag' in tt and excl:
            consts = [repo.try_fold(n, dm, base) for n in ast.walk(t) if isinstance(n, (ast.Constant, ast.Tuple, ast.Name, ast.Attribute))]
            if any(cst in (0, (0, 0)) or (isinstance(cst, (tuple, list)) and (0, 0) in cst) for cst in consts
                   if isinstance(cst, (int, tuple, list)) and not isinstance(cst, bool)):
                by_tag = True
    if src_txt == 'self.command_set':
        tag_sorted = facts['iter_sorted']
        source = 'iteration of the Dataset (tag-sorted)'
    elif src_txt == 'self.command_set.values()':
        tag_sorted = sorted_src
        source = 'Dataset.values() (%s)' % ('insertion order' if facts['values_is_dict_view'] else 'order unknown')
    else:
        tag_sorted = sorted_src
        source = src_txt
    if by_tag:
        if skip:
            probs.append('elements are filtered by tag and additionally %d element(s) are skipped by position' % skip)
    elif skip == 1:
        if not tag_sorted:
            # is (0000,0000) the first element created?
            first = None
            for n in ast.walk(init.node):
                if isinstance(n, ast.Assign) and norm(n.targets[0]).startswith('self.command_set.') and first is None:
                    first = norm(n.targets[0]).split('.')[-1]
            probs.append('the group-length element is excluded by position ([1:]) from %s, but the first element in that '
                         'order is %s, not CommandGroupLength: the announced length omits CommandField and counts the '
                         'group-length element itself' % (source, first))
    elif skip == 0:
        probs.append('(0000,0000) is not excluded from the sum')
    else:
        probs.append('%d leading elements are skipped' % skip)
    # on every path the sum must be stored into element (0000,0000) (aliases of the element are followed)
    c2 = SymClient(repo, sl, event_of=lambda *a: None, hierarchy=hier, store_event=lambda t: t.endswith('.value'))
    fin2 = c2.final_states(c2.run(empty_state()))
    import re as _re
    stored_terms = [e.args[0] for s2, how2 in fin2 if not how2.startswith('raise') for e in s2.trail
                    if e.kind == 'store' and e.callee.startswith('self.command_set[') and e.callee.endswith('.value')]
    folded = [t for t in stored_terms if _re.match(r"^AUG_\w+\(0, 'Add', len\(.*encode_element\(", t)]
    for s2, how2 in fin2:
        if how2.startswith('raise'):
            continue
        st_ = [e for e in s2.trail if e.kind == 'store' and e.callee in ('self.command_set[0, 0].value', 'self.command_set[0].value',
                                                                        'self.command_set[(0, 0)].value')]
        if not st_:
            probs.append('a path through set_length leaves (0000,0000) as it was [%s]: a length computed for an earlier send '
                         'goes out again after the message was modified' % (' '.join(s2.conds) or 'no store found'))
        elif st_[-1].args[0] in folded or (st_[-1].args[0] == '0' and folded):
            pass     # an accumulation loop: 0 + the lengths added per element (0 on the path where nothing was added)
        elif st_[-1].args[0].endswith('.tell()'):
            # measured by writing the elements into one writer and asking where it stands: which elements, and that the writer
            # was empty, is not read by this rule
            if not m2_undecided:
                m2_undecided = True
                rep.undecided('C08.M2', '%s: the group length is the position of a writer (%s), not a sum of element lengths'
                              % (sl.loc(), st_[-1].args[0][:80]))
        elif not st_[-1].args[0].startswith('sum('):
            probs.append('(0000,0000) is set to %s, not to the sum of the element lengths' % st_[-1].args[0])
    if 'encode_element' not in norm(sl.node):
        probs.append('element lengths are not measured with dsutils.encode_element')
    if not m2_undecided:
      rep.check(not probs, 'C08.M2', 'dimsemessages:DIMSEMessage.set_length:exclusion', sl.loc(),
              'sum over all elements except (0000,0000) (%s), stored in (0000,0000)' %
              ('filtered by tag' if by_tag else 'first of a tag-sorted sequence'), '; '.join(probs))

    # ---------------------------------------------------------------- M5: who may write the stored data set
    p5w = []
    n_w = 0
    for f5 in repo.all_functions():
        for n in ast.walk(f5.node):
            tg = []
            if isinstance(n, (ast.Assign, ast.AugAssign, ast.Delete)):
                # (targets inside tuple / list / starred targets count: ``old, self._data_set = self._data_set, None``)
                tg = [x for t in (n.targets if isinstance(n, (ast.Assign, ast.Delete)) else [n.target]) for x in ast.walk(t)
                      if isinstance(x, ast.Attribute) and x.attr == '_data_set' and isinstance(x.ctx, (ast.Store, ast.Del))]
                # (an attribute of the same name on ``self`` of a class that is not a DIMSE message is another thing: the
                # reassembler's own buffer, say)
                if tg and f5.cls is not None and not f5.cls.is_subclass_of(base) and all(
                        isinstance(x.value, ast.Name) and x.value.id == 'self' for x in tg):
                    tg = []
            elif isinstance(n, ast.Call) and norm(n.func) == 'setattr' and len(n.args) >= 2 and isinstance(n.args[1], ast.Constant) \
                    and n.args[1].value == '_data_set':
                tg = [n]
            for t in tg:
                n_w += 1
                if f5.key == 'dimsemessages:DIMSEMessage.data_set.setter':
                    continue
                if f5.key == 'dimsemessages:DIMSEMessage.__init__' and isinstance(n, ast.Assign) and isinstance(n.value, ast.Constant) \
                        and n.value.value is None:
                    continue
                p5w.append('%s writes _data_set directly (line %d), bypassing the setter that keeps CommandDataSetType in step' % (f5.key, n.lineno))
    rep.check(not p5w, 'C08.M5', 'dimsemessages:DIMSEMessage._data_set:writers', dm.relpath, '%d writer sites' % n_w, '; '.join(p5w))

    # ---------------------------------------------------------------- M9: what is measured is what is sent
    if filtered_copy:
        rep.rule('C08.M9', 'when encode() sends a selection of the command set, set_length() measures the same selection: the two '
                 'predicates are compared, and where they are written differently evaluated on sample elements (value None, \'\', [], b\'\', '
                 'a text, 0, 1; library fact: an element whose value is empty encodes to its 8-byte header alone)', 1)
        from ..arith import CannotEvaluate, eval_value
        sl = repo.func('dimsemessages', 'DIMSEMessage.set_length')
        p9 = []
        sel = None
        for lp in ast.walk(enc0_written.node):
            if isinstance(lp, ast.For) and 'self.command_set' in norm(lp.iter) and isinstance(lp.target, ast.Name):
                for st_ in lp.body:
                    if isinstance(st_, ast.If) and not st_.orelse and any(isinstance(c_, ast.Call) and isinstance(c_.func, ast.Attribute)
                                                                         and c_.func.attr in ('add', 'append', '__setitem__') for c_ in ast.walk(st_)):
                        sel = (lp.target.id, st_.test)
        v_filters, size_filters, v_name = [], [], None
        for g in [x for x in ast.walk(sl.node) if isinstance(x, (ast.GeneratorExp, ast.ListComp))]:
            for gen in g.generators:
                if 'self.command_set' in norm(gen.iter) and isinstance(gen.target, ast.Name):
                    v_name = gen.target.id
                    v_filters += list(gen.ifs)
                elif isinstance(gen.target, ast.Name) and gen.ifs:
                    size_filters += [(gen.target.id, t_) for t_ in gen.ifs]
        if sel is None or v_name is None:
            rep.undecided('C08.M9', '%s: the selection made by encode() or the terms summed by set_length() are not in a form the rule reads'
                          % enc0_written.loc())
        else:
            import copy as _cp

            def rename(e, old_, new_):
                class R(ast.NodeTransformer):
                    def visit_Name(self_, n):
                        return ast.copy_location(ast.Name(id=new_, ctx=n.ctx), n) if n.id == old_ else n
                return R().visit(_cp.deepcopy(e))
            SAMPLES = [None, '', [], b'', 'X', 0, 1, [1, 2]]
            for val in SAMPLES:
                empty = val is None or (hasattr(val, '__len__') and len(val) == 0)
                enc_len = 8 if empty else 10
                for tag in (0x00000100, 0x00000000):
                    env = {'E.value': val, 'E.tag': tag, 'E.VM': 0 if empty else 1}
                    try:
                        sent = bool(eval_value(rename(sel[1], sel[0], 'E'), dict(env)))
                        meas = all(bool(eval_value(rename(t_, v_name, 'E'), dict(env))) for t_ in v_filters) and \
                            all(bool(eval_value(rename(t_, nm_, 'S'), {'S': enc_len})) for nm_, t_ in size_filters)
                    except (CannotEvaluate, Exception) as ex_:
                        rep.undecided('C08.M9', '%s: the selection predicates cannot be evaluated for value %r: %s' % (enc0_written.loc(), val, ex_))
                        p9 = None
                        break
                    if tag == 0:
                        # the group length element itself: sent, never measured
                        if not sent:
                            p9.append('the group length element is not sent')
                        continue
                    if sent != meas:
                        p9.append('an element with value %r is %s by encode() and %s by set_length(): CommandGroupLength is %d bytes %s'
                                  % (val, 'sent' if sent else 'left out', 'counted' if meas else 'not counted', enc_len,
                                     'too small' if sent else 'too large'))
                if p9 is None:
                    break
            if p9 is not None:
                rep.check(not p9, 'C08.M9', 'dimsemessages:DIMSEMessage:selection-agrees', sl.loc(),
                          'encode() and set_length() select the same elements on %d sample values' % len(SAMPLES), '; '.join(sorted(set(p9))))
    # ---------------------------------------------------------------- M3
    send = repo.func('asceprovider', 'Association.send')
    rep.analysed(send)
    msgp = send.params[1] if len(send.params) > 1 else 'dimse_msg'
    c = SymClient(repo, send, event_of=ev_kind, hierarchy=hier, inline=repo.is_helper,
                  store_event=lambda t_: t_.startswith(msgp + '.'))
    fin = c.final_states(c.run(empty_state()))
    probs = []
    for s, how in fin:
        kinds = [e.kind for e in s.trail]
        if 'msg.encode' in kinds:
            i = kinds.index('msg.encode')
            pre = [e for e in s.trail[:i] if e.kind == 'set_length']
            if not pre:
                probs.append('encode() is reached without set_length() before it')
            elif pre[-1].callee.rsplit('.', 1)[0] != s.trail[i].callee.rsplit('.', 1)[0]:
                probs.append('set_length() is called on %s but %s is encoded' % (pre[-1].callee, s.trail[i].callee))
            else:
                # the length that was measured is the length that is sent: nothing is written to the message in between
                j = max(k_ for k_, e_ in enumerate(s.trail[:i]) if e_.kind == 'set_length')
                for e_ in s.trail[j + 1:i]:
                    if e_.kind == 'store' and e_.callee.startswith(msgp + '.'):
                        probs.append('%s is written (line %d) after set_length() measured the command set and before it is encoded: '
                                     'the Command Group Length that goes out is the one of the message as it was before'
                                     % (e_.callee, e_.line))
    if not any('msg.encode' in [e.kind for e in s.trail] for s, _ in fin):
        probs.append('send does not encode the message')
    rep.check(not probs, 'C08.M3', 'asceprovider:Association.send:length-before-encode', send.loc(),
              'set_length() precedes encode() on every path', '; '.join(sorted(set(probs))))

    # ---------------------------------------------------------------- M4
    setter = base.find_setter('data_set')
    enc = base.find_method('encode')
    if setter is None:
        raise AnalysisError('DIMSEMessage.data_set setter not found')
    rep.analysed(setter)
    vparam = setter.params[1]
    c = SymClient(repo, setter, event_of=lambda *a: None, hierarchy=hier,
                  store_event=lambda t: t.endswith('CommandDataSetType') or t.endswith('_data_set'))
    fin = c.final_states(c.run(empty_state()))
    probs = []
    no_ds = repo.try_fold(ast.parse('NO_DATASET', mode='eval').body, dm)
    if no_ds != ps3_7.NO_DATASET:
        probs.append('NO_DATASET is %r, PS3.7: 0101H' % no_ds)
    for s, how in fin:
        st_flag = [e for e in s.trail if e.kind == 'store' and e.callee.endswith('CommandDataSetType')]
        st_val = [e for e in s.trail if e.kind == 'store' and e.callee.endswith('_data_set')]
        if not st_val or st_val[-1].args[0] != vparam:
            probs.append('the value is not stored on this path')
        present = ('+' + vparam) in s.conds
        absent = ('-' + vparam) in s.conds
        if not present and not absent:
            probs.append('the setter does not test the truth value of %s, which is what encode() tests' % vparam)
            continue
        if not st_flag:
            probs.append('CommandDataSetType is left unchanged when the data set is %s: a message whose data set was set '
                         'and then cleared still announces one' % ('set' if present else 'cleared'))
            continue
        v = repo.try_fold(ast.parse(st_flag[-1].args[0], mode='eval').body, dm, base)
        if present and v == ps3_7.NO_DATASET:
            probs.append('CommandDataSetType says "no data set" although one is present')
        if absent and v != ps3_7.NO_DATASET:
            probs.append('CommandDataSetType is %r when the data set is cleared, must be 0101H' % v)
    enc_tests = [norm(n.test) for n in ast.walk(enc.node) if isinstance(n, ast.If)]
    # (the same question asked the other way round -- ``if not self.data_set: return`` -- is the same decision)
    if not ({'self.data_set', 'self._data_set', 'not self.data_set', 'not self._data_set'} & set(enc_tests)):
        probs.append('encode() does not decide on the truth value of the data set (tests: %s)' % enc_tests)
    rep.check(not probs, 'C08.M4', 'dimsemessages:DIMSEMessage.data_set.setter:flag-both-ways', setter.loc(),
              'flag written on both outcomes of the truth test (%d paths)' % len(fin), '; '.join(sorted(set(probs))))
