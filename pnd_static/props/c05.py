"""C05 -- provider behaviour equals the PS3.8 protocol machine over every event history.

Decided: glue conformance (PDU-type/event maps, event producers, timer shape, loop
order) and inductive invariants of the extracted machine (checked cell by cell as
pre-invariant => post-invariant, hence true on every history of that machine)."""
from __future__ import annotations

import ast

from ..flow import attr_chain
from ..fsm_model import FsmModel, cell_context, summarize_outcome
from ..oracles import ps3_8
from ..provider_model import (ProviderModel, appended_event, cond_says_recv_empty,
                              cond_says_socket_present, parse_cond, PRODUCERS)
from ..srcmodel import AnalysisError, ClassRef, NotConst, norm
from ..sym import SymClient, empty_state
from .c04 import cell_key


def oracle_event(kind: str, what: str) -> int:
    for n, cause in ps3_8.EVENTS.items():
        if cause == (kind, what):
            return n
    raise KeyError((kind, what))


def check_maps(repo, model: FsmModel, rep):
    mod = repo.module('dulprovider')
    # G1: PDU_TYPES
    try:
        types = repo.module_const('dulprovider', 'PDU_TYPES')
    except NotConst:
        raise AnalysisError('dulprovider.PDU_TYPES does not fold to a constant table')
    if not isinstance(types, dict):
        raise AnalysisError('dulprovider.PDU_TYPES is not a dict literal')
    seen_kinds = set()
    for code, val in sorted(types.items()):
        key = 'dulprovider:PDU_TYPES[0x%02x]' % code
        if not (isinstance(val, tuple) and len(val) == 2 and isinstance(val[0], ClassRef)):
            rep.bad('C05.G1', key, mod.relpath, 'entry is not (PDU class, event)')
            continue
        cref, evt = val
        kind = next((k for k, v in ps3_8.PDU_KINDS.items() if v[1] == cref.name), None)
        evname = model.event_by_val.get(evt)
        cls = repo.cls(cref.module, cref.name)
        ptype = repo.try_fold(cls.find_attr('pdu_type')[1], cls.module, cls) if cls.find_attr('pdu_type') else None
        problems = []
        if kind is None:
            problems.append('%s is not a PDU class' % cref.name)
        else:
            seen_kinds.add(kind)
            if ps3_8.PDU_KINDS[kind][0] != code:
                problems.append('type byte 0x%02x selects %s whose standard type is 0x%02x' % (code, kind, ps3_8.PDU_KINDS[kind][0]))
            if ptype != code:
                problems.append('%s.pdu_type is %r, key is 0x%02x' % (cref.name, ptype, code))
            want = 'EVT_%d' % oracle_event('pdu', kind)
            if evname != want:
                problems.append('reception of %s raises %s, standard: %s' % (kind, evname, want))
        rep.check(not problems, 'C05.G1', key, mod.relpath, '%s received -> %s' % (kind, evname), '; '.join(problems))
    for kind in ps3_8.PDU_KINDS:
        if kind not in seen_kinds:
            rep.bad('C05.G1', 'dulprovider:PDU_TYPES:%s' % kind, mod.relpath, 'no entry decodes %s PDUs' % kind)
    # G2: PDU_TO_EVENT
    try:
        toev = repo.module_const('dulprovider', 'PDU_TO_EVENT')
    except NotConst:
        raise AnalysisError('dulprovider.PDU_TO_EVENT does not fold to a constant table')
    by_code = {v[0]: k for k, v in ps3_8.PDU_KINDS.items()}
    for code, evt in sorted(toev.items()):
        key = 'dulprovider:PDU_TO_EVENT[0x%02x]' % code
        kind = by_code.get(code)
        evname = model.event_by_val.get(evt)
        if kind is None:
            rep.bad('C05.G2', key, mod.relpath, 'key 0x%02x is no PDU type' % code)
            continue
        want = 'EVT_%d' % oracle_event('primitive', kind)
        rep.check(evname == want, 'C05.G2', key, mod.relpath,
                  'primitive carried by %s -> %s' % (kind, evname),
                  'local primitive carried by %s raises %s, standard: %s' % (kind, evname, want))
    for kind, (code, _) in ps3_8.PDU_KINDS.items():
        if code not in toev:
            rep.bad('C05.G2', 'dulprovider:PDU_TO_EVENT:%s' % kind, mod.relpath, 'no event for outgoing %s' % kind)
    return types, toev


def check_producers(repo, model: FsmModel, pm: ProviderModel, rep):
    """G3: every append site is control-dependent on its cause."""
    mod = pm.mod
    produced = set()
    sites = {}
    nonneg = timer_limit_nonneg(repo)
    # every physical append site in the class
    all_sites = {}
    for mname, f in pm.cls.methods.items():
        for n in ast.walk(f.node):
            if isinstance(n, ast.Call) and isinstance(n.func, ast.Attribute) and n.func.attr in ('append', 'appendleft') \
                    and attr_chain(n.func.value) == ('self', 'event'):
                all_sites[(mname, n.lineno)] = f
    # analyse the constructor and the three producers with their helpers inlined, so that an append inside a
    # helper is judged with the conditions of the path that reaches it
    from ..excmodel import node_raises, folder
    _fold = folder(repo, 'dulprovider', 'DULServiceProvider')
    for name in ['__init__'] + list(PRODUCERS):
        f = pm.method(name)
        rep.analysed(f)
        c = pm.client(name, inline_helpers=True,
                      raises_of=lambda node, cl, st: node_raises(node, lambda e: cl.term(e, st, heap_ext=False), _fold))
        finals = c.final_states(c.run(empty_state()))
        for s, how in finals:
            for i, ev in enumerate(s.trail):
                if ev.kind != 'append':
                    continue
                evname = appended_event(ev, model, repo, mod)
                site = (ev.fn.rsplit('.', 1)[-1], ev.line)
                d = sites.setdefault(site, {'evt': evname, 'arg': ev.args[0] if ev.args else '', 'problems': set(), 'paths': 0})
                d['paths'] += 1
                conds = ev.conds
                trail_after = s.trail[i + 1:]
                trail_before = s.trail[:i]
                if evname is None:
                    # table-driven: PDU_TYPES[...][1] or PDU_TO_EVENT[<prim>.pdu_type]
                    arg = ev.args[0] if ev.args else ''
                    prim = [e for e in trail_before if e.kind == 'store' and e.callee == 'self.primitive']
                    pterm = prim[-1].args[0] if prim else None
                    if 'PDU_TYPES[' in arg:
                        produced.update('EVT_%d' % oracle_event('pdu', k) for k in ps3_8.PDU_KINDS)
                        ok = arg.endswith('[1]') and pterm is not None and pterm.startswith(arg[:-3] + '[0].decode(')
                        if not ok:
                            d['problems'].add('event and decoder are not taken from the same PDU_TYPES row '
                                              '(event %s, primitive %s)' % (arg, pterm))
                    elif 'PDU_TO_EVENT[' in arg:
                        produced.update('EVT_%d' % oracle_event('primitive', k) for k in ps3_8.PDU_KINDS)
                        ok = pterm is not None and arg == 'PDU_TO_EVENT[%s.pdu_type]' % _paren(pterm)
                        if not ok:
                            d['problems'].add('event is not looked up from the type of the primitive just taken '
                                              '(event %s, primitive %s)' % (arg, pterm))
                    else:
                        d['problems'].add('appended event %s is neither a constant nor table-driven' % arg)
                    continue
                produced.add(evname)
                n = int(evname[4:])
                if n == 2:
                    ok = any(_is_state_test(c_, 'STA_4', True) for c_ in conds)
                    if not ok:
                        d['problems'].add('EVT_2 (connect confirmation) appended outside the Sta4 test')
                elif n == 5:
                    ok = any(c_ in ('+dul_socket', '+dul_socket is not None', '-dul_socket is None') for c_ in conds)
                    if not ok:
                        d['problems'].add('EVT_5 (connection indication) not conditional on a supplied socket')
                elif n == 17:
                    failed = any(c_.startswith('exc:OSError') or c_.startswith('exc:socket') for c_ in conds) \
                        or any(cond_says_recv_empty(c_) for c_ in conds)
                    if not failed:
                        d['problems'].add('EVT_17 (transport closed) appended on a path where no recv failed or returned empty')
                    closes = [e for e in s.trail if e.kind == 'close']
                    unsets = [e for e in s.trail if e.kind == 'store' and e.callee == 'self.dul_socket' and e.args == ('None',)]
                    if not closes or not unsets:
                        d['problems'].add('EVT_17 path does not close and release the socket (close x%d, dul_socket=None x%d)'
                                          % (len(closes), len(unsets)))
                    elif s.trail.index(unsets[0]) < s.trail.index(closes[0]) and \
                            not any(c_.startswith('old:') and c_.endswith('=self.dul_socket') for c_ in closes[0].conds):
                        # (closing through a local that was bound to the socket before the attribute was released -- the
                        # ``sock, self.dul_socket = self.dul_socket, None`` idiom -- closes the socket all the same)
                        d['problems'].add('dul_socket released before close()')
                elif n == 18:
                    if nonneg and any(zero_exceeds_limit(c_, 'self.timer') for c_ in conds):
                        continue       # 0 > limit: not a path (limits are constants >= 0)
                    ok = any(_is_timer_expired(c_) for c_ in conds) or all(expiry_facts(conds, 'self.timer'))
                    if not ok:
                        d['problems'].add('EVT_18 appended without a positive expiry test of the ARTIM timer')
                elif n == 9:
                    # P-DATA request as a constant: only for a primitive taken from the DIMSE message generator on this path
                    # (what it yields are P-DATA-TF PDUs: C06.S5)
                    prim = [e for e in trail_before if e.kind == 'store' and e.callee == 'self.primitive']
                    pterm = prim[-1].args[0] if prim else ''
                    if not (pterm.replace(' ', '').startswith('next(self.dimse_gen')):
                        d['problems'].add('EVT_9 appended as a constant for a primitive that is not taken from the DIMSE message generator (%s)'
                                          % (pterm or 'none stored on this path'))
                elif n == 19:
                    ok = any(c_.startswith('exc:') for c_ in conds) or any('PDU_TYPES' in c_ and ' in ' in c_ for c_ in conds)
                    if not ok:
                        d['problems'].add('EVT_19 appended outside the unknown-type / decode-failure branch')
                else:
                    d['problems'].add('%s is appended as a constant; the standard ties it to a PDU or primitive' % evname)
    for (mname, line), f in sorted(all_sites.items()):
        if repo.is_helper(f):
            continue    # judged where it is inlined, with the conditions of the calling path
        if (mname, line) not in sites and not any(m_ == mname for m_, _l in sites):
            # (an event of a function that was entered through a new helper carries the line of the helper's call: the function
            # counts as reached when any of its appends was seen)
            rep.bad('C05.G3', 'dulprovider:DULServiceProvider.%s:append@unreached' % mname, f.loc(),
                    'an event is queued at line %d by code that is not reached from the constructor or the three producers' % line)
    for (name, line), d in sorted(sites.items()):
        f = pm.cls.methods[name]
        label = d['evt'] or ('table:' + ('PDU_TYPES' if 'PDU_TYPES' in d['arg'] else 'PDU_TO_EVENT' if 'PDU_TO_EVENT' in d['arg'] else 'expr'))
        key = 'dulprovider:DULServiceProvider.%s:append(%s)' % (name, label)
        # several sites with the same label in one function get an index
        idx = sum(1 for (n2, l2), d2 in sites.items() if n2 == name and l2 < line and
                  (d2['evt'] or d2['arg']) == (d['evt'] or d['arg']))
        if idx:
            key += '#%d' % idx
        rep.check(not d['problems'], 'C05.G3', key, '%s:%d' % (pm.mod.relpath, line),
                  'producer of %s is control-dependent on its cause on %d path(s)' % (label, d['paths']),
                  '; '.join(sorted(d['problems'])))
    missing = sorted({'EVT_%d' % i for i in range(1, 20)} - produced, key=lambda x: int(x[4:]))
    rep.check(not missing, 'C05.G3', 'dulprovider:DULServiceProvider:all-events-produced', pm.cls.loc(),
              'each of the 19 events has a producer', 'no producer for %s' % ', '.join(missing))


def _paren(t):
    return t if t.replace('.', '').replace('_', '').isalnum() or t.endswith(')') or t.endswith(']') else '(%s)' % t


def _is_state_test(c, state, positive):
    pol, e = parse_cond(c)
    if e is None or not isinstance(e, ast.Compare) or len(e.ops) != 1:
        return False
    sides = [e.left, e.comparators[0]]
    txts = [ast.unparse(x) for x in sides]
    if not any(t.endswith('current_state') for t in txts):
        return False
    if not any(t.endswith('States.' + state) for t in txts):
        return False
    if isinstance(e.ops[0], ast.Eq):
        return pol is positive
    if isinstance(e.ops[0], ast.NotEq):
        return pol is (not positive)
    return False


def timer_limit_nonneg(repo) -> bool:
    """the limit of every Timer of the package is a non-negative constant: ``_max_seconds`` is stored only by the constructor,
    from its parameter, and every ``Timer(..)`` in the package passes a constant >= 0.  Under that, a test ``0 > limit`` (an
    elapsed time of 0 for a timer that is not running, compared with the limit) never holds."""
    tc = repo.cls('dulprovider', 'Timer')
    init = tc.find_method('__init__')
    if init is None or len(init.params) != 2:
        return False
    for c in repo.all_classes():
        for f in list(c.methods.values()) + list(c.setters.values()):
            for n in ast.walk(f.node):
                if isinstance(n, ast.Attribute) and n.attr == '_max_seconds' and isinstance(n.ctx, (ast.Store, ast.Del)):
                    if f.key != init.key:
                        return False
    stores = [n for n in ast.walk(init.node) if isinstance(n, ast.Assign) and any(
        isinstance(t, ast.Attribute) and t.attr == '_max_seconds' for t in n.targets)]
    if len(stores) != 1 or not (isinstance(stores[0].value, ast.Name) and stores[0].value.id == init.params[1]):
        return False
    n_sites = 0
    for f in repo.all_functions():
        for n in ast.walk(f.node):
            if isinstance(n, ast.Call) and norm(n.func).split('.')[-1] == 'Timer':
                n_sites += 1
                a = n.args[0] if n.args else next((k.value for k in n.keywords if k.arg == init.params[1]), None)
                v = repo.try_fold(a, f.module, f.cls) if a is not None else None
                if not (isinstance(v, (int, float)) and not isinstance(v, bool) and v >= 0):
                    return False
    return n_sites > 0


def zero_exceeds_limit(c: str, obj: str) -> bool:
    """the path condition ``0 > obj._max_seconds`` (taken positively): infeasible under timer_limit_nonneg"""
    pol, e = parse_cond(c)
    if e is None or not (isinstance(e, ast.Compare) and len(e.ops) == 1):
        return False
    l, r, op = e.left, e.comparators[0], e.ops[0]
    lim = '%s._max_seconds' % obj
    zero = lambda x: isinstance(x, ast.Constant) and type(x.value) in (int, float) and x.value == 0
    if zero(l) and norm(r) == lim:
        return (isinstance(op, ast.Gt) and pol) or (isinstance(op, ast.LtE) and not pol)
    if zero(r) and norm(l) == lim:
        return (isinstance(op, ast.Lt) and pol) or (isinstance(op, ast.GtE) and not pol)
    return False


def expiry_facts(conds, obj):
    """(started, elapsed): does the path condition say that the start time of timer ``obj`` is set, and that the time since
    then exceeds its limit?"""
    st = '%s._start_time' % obj
    started = any(x in ('+' + st, '+%s is not None' % st, '-%s is None' % st, '+bool(%s)' % st) for x in conds)
    elapsed = False
    for x in conds:
        pol, e = parse_cond(x)
        if e is not None and isinstance(e, ast.Compare) and len(e.ops) == 1 and 'time.time()' in ast.unparse(e) \
                and ('%s._max_seconds' % obj) in ast.unparse(e) and st in ast.unparse(e):
            op = e.ops[0]
            left_is_elapsed = 'time.time()' in ast.unparse(e.left)
            gt = isinstance(op, (ast.Gt, ast.GtE)) if left_is_elapsed else isinstance(op, (ast.Lt, ast.LtE))
            lt = isinstance(op, (ast.Lt, ast.LtE)) if left_is_elapsed else isinstance(op, (ast.Gt, ast.GtE))
            if (gt and pol) or (lt and not pol):
                elapsed = True
    return started, elapsed


def _is_timer_expired(c):
    pol, e = parse_cond(c)
    if e is None:
        return False
    txt = ast.unparse(e)
    if txt == 'self.timer.check()':
        return pol is False
    if txt in ('self.timer.check() is False', 'self.timer.check() == False'):
        return pol is True
    if txt in ('self.timer.check() is True', 'self.timer.check() == True',
               'self.timer.check() is not False', 'self.timer.check() != False'):
        return pol is False
    return False


def check_timer(repo, pm, rep, rule='C05.G4'):
    """G4: Timer.check() is False iff started and elapsed beyond the limit."""
    tc = repo.cls('dulprovider', 'Timer')
    hier = pm.hier
    f = tc.find_method('check')
    if f is None:
        raise AnalysisError('Timer.check not found')
    rep.analysed(f)
    c = SymClient(repo, f, event_of=lambda *a: None, hierarchy=hier, bool_returns=True, inline=repo.is_helper)
    finals = c.final_states(c.run(empty_state()))
    problems = []
    n_false = 0
    nonneg = timer_limit_nonneg(repo)
    for s, how in finals:
        ret = s.ret
        if nonneg and any(zero_exceeds_limit(c_, 'self') for c_ in s.conds):
            continue
        started, elapsed = expiry_facts(s.conds, 'self')
        if ret == 'False':
            n_false += 1
            if not (started and elapsed):
                problems.append('check() returns False on a path where the timer is not (started and elapsed > limit): %s' % ' '.join(s.conds))
        elif ret == 'True':
            if started and elapsed:
                problems.append('check() returns True although started and elapsed')
        else:
            problems.append('check() returns %s' % ret)
    if n_false == 0:
        problems.append('check() never reports expiry')
    rep.check(not problems, rule, 'dulprovider:Timer.check', f.loc(),
              'False iff started and elapsed > limit (%d paths)' % len(finals), '; '.join(problems))
    # start/stop/restart
    def stores(name):
        fn = tc.find_method(name)
        if fn is None:
            raise AnalysisError('Timer.%s not found' % name)
        rep.analysed(fn)
        cl = SymClient(repo, fn, event_of=lambda call, callee, *_: 'call' if callee.startswith('self.') else None,
                       hierarchy=hier, store_event=lambda t: t == 'self._start_time',
                       inline=lambda fi: fi.cls is not None and fi.cls.key == tc.key)
        return cl.final_states(cl.run(empty_state())), fn
    fs, fn = stores('start')
    ok = all([e.args[0] for e in s.trail if e.kind == 'store'][-1:] == ['time.time()'] for s, _ in fs)
    rep.check(ok, rule, 'dulprovider:Timer.start', fn.loc(), 'start records the current time', 'start() does not record time.time()')
    fs, fn = stores('stop')
    ok = all([e.args[0] for e in s.trail if e.kind == 'store'][-1:] == ['None'] for s, _ in fs)
    rep.check(ok, rule, 'dulprovider:Timer.stop', fn.loc(), 'stop clears the start time', 'stop() does not clear the start time')
    fs, fn = stores('restart')
    ok = all([e.args[0] for e in s.trail if e.kind == 'store'][-1:] == ['time.time()'] for s, _ in fs)
    rep.check(ok, rule, 'dulprovider:Timer.restart', fn.loc(), 'restart leaves the timer running from now',
              'restart() does not leave the timer started at the current time')


def check_invariants(repo, model: FsmModel, rep, only_timer_rule=None):
    """G5: inductive invariants, cell by cell.  ``only_timer_rule``: report just the ARTIM invariant, under that rule id (C13.K9)."""
    missing = []
    for (e, s), action_id in sorted(ps3_8.TABLE.items()):
        meth = model.table.get(('EVT_%d' % e, 'STA_%d' % s))
        if meth is None:
            missing.append('(Evt%d, Sta%d): %s' % (e, s, action_id))
            continue
        prim, sock = cell_context(e, s)
        f = model.sm.find_method(meth)
        outs = [o for o in model.summarize(meth, prim, sock) if o.kind == 'return']
        key = cell_key(e, s)
        pre_timer = s in ps3_8.ARTIM_STATES
        p_timer, p_sock, p_pdata, p_ind13 = [], [], [], []
        for o in outs:
            if o.next is None or not o.next.startswith('STA_'):
                continue
            nxt = int(o.next[4:])
            summ = summarize_outcome(o)
            post_timer = pre_timer if summ['timer'] is None else (summ['timer'] == 'run')
            if post_timer != (nxt in ps3_8.ARTIM_STATES):
                p_timer.append('%s(): ARTIM %s on entering Sta%d (running before: %s)'
                               % (meth, 'running' if post_timer else 'not running', nxt, pre_timer))
            post_sock = o.sock_after == 'present'
            # (a transport the provider gave up on the action's behalf -- a write failed -- with "transport connection closed"
            # queued: the state is left again as soon as Evt17 is taken off the queue)
            evt17_queued = any(e_[0] == 'queue' and str(e_[1]).endswith('EVT_17') for e_ in o.effects)
            if post_sock != (nxt not in ps3_8.NO_TRANSPORT_STATES) and not (not post_sock and evt17_queued):
                p_sock.append('%s(): transport %s on entering Sta%d' % (meth, o.sock_after, nxt))
            if 'P-DATA-TF' in summ['send'] and s not in (6, 8):
                p_pdata.append('%s(): P-DATA-TF sent in Sta%d' % (meth, s))
            if 'P-DATA' in summ['indicate'] and s not in (6, 7):
                p_pdata.append('%s(): P-DATA indicated in Sta%d' % (meth, s))
            if s == 13 and summ['indicate']:
                p_ind13.append('%s(): indication %s after the association is over (Sta13)' % (meth, sorted(summ['indicate'])))
        loc = f.loc()
        if only_timer_rule is not None:
            rep.check(not p_timer, only_timer_rule, key, loc, 'ARTIM runs exactly in Sta2/Sta13 after this cell', ' | '.join(sorted(set(p_timer))))
            continue
        rep.check(not p_timer, 'C05.G5a', key, loc, 'ARTIM runs exactly in Sta2/Sta13 after this cell', ' | '.join(sorted(set(p_timer))))
        rep.check(not p_sock, 'C05.G5b', key, loc, 'transport present iff not idle after this cell', ' | '.join(sorted(set(p_sock))))
        rep.check(not p_pdata, 'C05.G5c', key, loc, 'no P-DATA outside an established association', ' | '.join(sorted(set(p_pdata))))
        if s == 13:
            rep.check(not p_ind13, 'C05.G5d', key, loc, 'no user indication in Sta13', ' | '.join(sorted(set(p_ind13))))


def check_totality(model: FsmModel, rep):
    """G5f: every (event, state) pair the standard defines is bound: an event in a state the table does not know is dropped
    without any effect (C04.T5), so on a history that reaches that pair the provider neither answers, indicates nor ends."""
    missing = ['(Evt%d, Sta%d): %s' % (e, s, a) for (e, s), a in sorted(ps3_8.TABLE.items())
               if model.table.get(('EVT_%d' % e, 'STA_%d' % s)) is None]
    rep.check(not missing, 'C05.G5f', 'fsm:StateMachine.transition_table:totality', model.sm.loc(),
              'all %d cells of Table 9-10 are bound' % len(ps3_8.TABLE),
              'events are silently dropped in these states (cells of Table 9-10 not bound): ' + '; '.join(missing[:12]))


def check_recv_guard(pm: ProviderModel, rep):
    """G5e: the socket is read only when present."""
    for name in ('_check_network',):
        f = pm.method(name)
        rep.analysed(f)
        finals = pm.paths(name)
        bad = []
        n = 0
        for s, how in finals:
            for ev in s.trail:
                if ev.kind in ('recv', 'select'):
                    n += 1
                    if not any(cond_says_socket_present(c) for c in ev.conds):
                        bad.append('%s at line %d reachable without a positive dul_socket test' % (ev.kind, ev.line))
        if n == 0:
            raise AnalysisError('no recv/select found in _check_network')
        rep.check(not bad, 'C05.G5e', 'dulprovider:DULServiceProvider.%s:socket-read-guard' % name, f.loc(),
                  '%d socket reads/polls, all dominated by a dul_socket presence test' % n, '; '.join(sorted(set(bad))))


def check_loop_order(pm: ProviderModel, rep):
    """G6: network, then outgoing queue, then timer; one popped event -> one action."""
    f = pm.method('run')
    rep.analysed(f)
    loop = None
    for n in ast.walk(f.node):
        if isinstance(n, ast.While):
            loop = n
            break
    if loop is None:
        raise AnalysisError('no while loop in DULServiceProvider.run')
    c = pm.client('run', inline_helpers=False,
                  raises_of=lambda node, cl, st: (['IndexError'] if 'popleft' in ast.unparse(node) else []))
    from ..flow import Flow
    flow = Flow(c)
    o = flow.run(loop.body, [empty_state()])
    finals = [(s, 'fall') for s in o.fall] + [(s, 'continue') for s in o.cont] + [(s, 'break') for s in o.brk] \
        + [(s, 'return') for s, _ in o.ret]
    problems = []
    order_seen = False
    for s, how in finals:
        seq = [e.kind for e in s.trail if e.kind.startswith('call:') or e.kind in ('pop', 'action')]
        calls = [k[5:] for k in seq if k.startswith('call:')]
        exp = [p for p in PRODUCERS if p in calls]
        if calls != exp:
            problems.append('producers polled in order %s, expected network, outgoing queue, timer' % calls)
        if len(calls) == 3:
            order_seen = True
        # a later producer runs only if the earlier ones returned false
        for i, p in enumerate(calls[1:], 1):
            prev = calls[i - 1]
            if not any(c_ == '-self.%s()' % prev for c_ in s.conds):
                problems.append('%s polled although %s may have produced an event' % (p, prev))
        pops = [e for e in s.trail if e.kind == 'pop']
        acts = [e for e in s.trail if e.kind == 'action']
        if len(pops) > 1 or len(acts) > 1:
            problems.append('%d events popped / %d actions in one iteration' % (len(pops), len(acts)))
        if acts:
            if not pops or acts[0].args != ('self.event.popleft()',):
                problems.append('action() is not run on the event popped in this iteration (arg %s)' % (acts[0].args,))
            if seq.index('action') < seq.index('pop'):
                problems.append('action before pop')
        if pops and not acts and how == 'fall':
            problems.append('an event is popped and dropped without running its action')
    if not order_seen:
        problems.append('no iteration polls all three producers')
    rep.check(not problems, 'C05.G6', 'dulprovider:DULServiceProvider.run:loop', f.loc(loop),
              'poll order network/outgoing/timer with short-circuit; one popped event -> one action (%d paths)' % len(finals),
              '; '.join(sorted(set(problems))))


def check_wire_order(pm: ProviderModel, rep):
    """G7: the event history the machine sees is the history on the wire."""
    from .c03 import buffer_anchor, drain_order_problems
    from ..srcmodel import AnalysisError
    try:
        buffer_anchor(pm.repo)
    except AnalysisError as exc:
        rep.undecided('C05.G7', str(exc))
        return
    finals = pm.paths('_check_network')
    problems, n_app = drain_order_problems(finals)
    if n_app == 0:
        problems.append('no path appends the received bytes to the buffer')
    rep.check(not problems, 'C05.G7', 'dulprovider:DULServiceProvider._check_network:wire-order', pm.method('_check_network').loc(),
              'buffered PDUs become events before the socket is polled (%d append paths)' % n_app, '; '.join(sorted(set(problems))))


def run(repo, rep):
    from ..pitfalls import memo_rule as _memo_rule
    _memo_rule(repo, rep, 'C05', 'C05.Z1')
    from ..pitfalls import log_rule as _log_rule
    _log_rule(repo, rep, 'C05', 'C05.Z2')
    from ..api_pitfalls import truth_rule as _truth_rule
    _truth_rule(repo, rep, 'C05', 'C05.Z4')
    from ..api_pitfalls import attribute_rule as _attribute_rule
    _attribute_rule(repo, rep, 'C05', 'C05.Z5')
    model = FsmModel(repo)
    pm = ProviderModel(repo, model)
    rep.trust('PS3.8 Table 9-10 event rows and state definitions as transcribed in pnd_static/oracles/ps3_8.py')
    rep.trust('CPython semantics of deque, queue.Queue, select.select, socket.recv, time.time')
    rep.assume('the provider is summarised by the effect lists of its actions and the append sites of its producers; '
               'invariants are shown inductively over the extracted machine, not by running the loop')
    rep.rule('C05.G1', 'PDU_TYPES: type byte = class pdu_type = standard type; event = standard event for that PDU received', 7)
    rep.rule('C05.G2', 'PDU_TO_EVENT: key = PDU type; event = standard event for the primitive carried by that PDU', 7)
    rep.rule('C05.G3', 'every event append is control-dependent on the cause the standard names; Evt17 paths close '
             'and release the socket; table-driven appends use the row of the primitive; all 19 events are produced', 8)
    rep.rule('C05.G4', 'ARTIM helper: check() is False iff started and elapsed > limit; start/stop/restart shapes', 4)
    rep.rule('C05.G5a', 'inductive: ARTIM running <=> state in {Sta2, Sta13}', 100)
    rep.rule('C05.G5b', 'inductive: transport present <=> state != Sta1', 100)
    rep.rule('C05.G5c', 'P-DATA-TF sent only in Sta6/Sta8, P-DATA indicated only in Sta6/Sta7', 100)
    rep.rule('C05.G5d', 'no indication to the user in any Sta13 cell', 8)
    rep.rule('C05.G5e', 'socket reads are dominated by a socket-presence test', 1)
    rep.rule('C05.G5f', 'totality: every (event, state) pair of Table 9-10 is bound to an action (an unbound pair drops the event)', 1)
    rep.rule('C05.G7', 'events reach the machine in wire order: complete PDUs already buffered are framed before the socket is '
             'polled again, so neither a transport close (Evt17) nor later data overtakes them', 1)
    rep.rule('C05.G6', 'loop polls network, outgoing queue, timer in that order; one event popped and one action run per iteration', 1)
    rep.rule('C05.G8', 'the timer is polled: no producer blocks without a bound on any path, so an iteration of the loop ends and ARTIM '
             'expiry becomes Evt18 while the machine waits in Sta2 / Sta13 (a read the poll does not vouch for waits for the peer, '
             'which is what the timer is there to bound)', 1)
    rep.rule('C05.G9', 'AE-6 chooses between its two alternatives (indicate the request / answer A-ASSOCIATE-RJ and wait in Sta13) as PS3.8 9.3.2 '
             'says: on bit 0 of the protocol-version field only -- no test in the package compares the whole field with a constant', 1)
    from ..api_pitfalls import protocol_version_problems as _pvp
    _pv, _pn = _pvp(repo)
    rep.check(not _pv, 'C05.G9', 'package:protocol-version-tests', '', '%d test(s) of the protocol version, all on single bits' % _pn, '; '.join(_pv[:3]))
    # G10: what is taken off the outgoing queue is not lost
    rep.rule('C05.G10', 'a request primitive taken from the service user\'s queue is handled or parked, never overwritten: an attribute '
             'that keeps such a primitive for later is written only on a path on which it is known to be empty (``is None``)', 1)
    from ..provider_model import parked_primitive_problems
    p10, n10 = parked_primitive_problems(repo, pm)
    rep.notes['parked_primitives'] = n10
    rep.check(not p10, 'C05.G10', 'dulprovider:DULServiceProvider:parked-primitives', pm.method('_check_outgoing_pdu').loc()
              if 'pm' in dir() else '', '%d store(s) of a queued primitive into an attribute, each into an empty one' % n10, '; '.join(sorted(set(p10))))
    check_maps(repo, model, rep)
    for tname in ('PDU_TYPES', 'PDU_TO_EVENT'):
        w = repo.table_writers('dulprovider', tname)
        rep.check(not w, 'C05.G1' if tname == 'PDU_TYPES' else 'C05.G2', 'dulprovider:%s:constant-after-import' % tname,
                  repo.module('dulprovider').relpath, 'no function re-binds or mutates the table', '; '.join(w))
    check_producers(repo, model, pm, rep)
    check_timer(repo, pm, rep)
    check_invariants(repo, model, rep)
    check_totality(model, rep)
    check_recv_guard(pm, rep)
    check_loop_order(pm, rep)
    check_wire_order(pm, rep)
    from ..provider_model import blocking_problems, make_raises, pdu_decode_raise_set
    finals_, blog_ = [], []
    for name in PRODUCERS:
        f_, l_ = pm.paths_and_log(name, raises_of=make_raises(repo, pdu_decode_raise_set(repo)))
        finals_.extend(f_)
        blog_.extend(l_)
    probs_ = blocking_problems(finals_, blog_)
    rep.check(not probs_, 'C05.G8', 'dulprovider:DULServiceProvider:timer-polled', pm.cls.loc(),
              'every read / poll / queue get on %d producer paths is bounded: each iteration reaches the timer poll' % len(finals_),
              '; '.join(probs_))
