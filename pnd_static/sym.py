"""Provenance data-flow: per-path reaching definitions as terms.

A client for flow.py whose abstract state is

* ``env``   local variable -> *term* (the normalised defining expression with earlier
            definitions substituted, i.e. the def-use chain folded into one term),
* ``heap``  (object token, field) -> term, for objects created on the path
            (``rsp = dimsemessages.CEchoRSPMessage()`` creates token ``NEW_CEchoRSPMessage_L166``),
* ``conds`` branch conditions taken (substituted terms, with polarity) and handlers entered,
* ``trail`` the calls the rule is interested in, in order, with their argument terms and
            a snapshot of the fields of object arguments at the time of the call.

No values are computed and no feasibility is decided: a term is only ever compared for
syntactic equality after normalisation.  Loops reach a fix-point because augmented
assignments are folded idempotently, events are recorded at most twice per distinct
tuple, and conditions are kept as a set.
"""
from __future__ import annotations

import ast
import copy
from dataclasses import dataclass
from typing import Any, Callable, Dict, FrozenSet, Iterable, List, Optional, Tuple

from .flow import Client, Flow, attr_chain, calls_in, ExcHierarchy
from .srcmodel import AnalysisError, ClassRef, FuncInfo, FuncRef, NotConst, Repo, body_without_docstring


def _retkey(n) -> str:
    """state key under which the value returned by the helper call ``n`` is kept: position and shape of the call (code expanded
    in place by the normaliser all carries the position of the call it replaced, so the position alone does not tell two
    calls apart)"""
    k = getattr(n, '_retkey', None)
    if k is None:
        # the callee as written and the number of arguments: what stays the same when the arguments are rewritten
        try:
            d = '%s/%d' % (ast.unparse(n.func), len(n.args) + len(n.keywords)) if isinstance(n, ast.Call) else ''
        except Exception:
            d = ''
        k = '$ret:%d:%d:%s' % (getattr(n, 'lineno', 0), getattr(n, 'col_offset', 0), d)
        try:
            n._retkey = k
        except Exception:
            pass
    return k


@dataclass(frozen=True)
class Event:
    kind: str
    callee: str
    args: Tuple[str, ...]
    kwargs: Tuple[Tuple[str, str], ...]
    snap: Tuple[Tuple[str, Tuple[Tuple[str, str], ...]], ...]  # (token, ((field, term), ...))
    line: int
    conds: Tuple[str, ...]
    fn: str = ''

    def fields(self, token: str) -> Dict[str, str]:
        for t, fs in self.snap:
            if t == token:
                return dict(fs)
        return {}


@dataclass(frozen=True)
class SymState:
    env: FrozenSet[Tuple[str, str]]
    heap: FrozenSet[Tuple[str, str, str]]
    conds: Tuple[str, ...]
    trail: Tuple[Event, ...]
    ret: Optional[str] = None

    def get(self, name: str) -> Optional[str]:
        for n, v in self.env:
            if n == name:
                return v
        return None

    def set(self, name: str, term: str) -> 'SymState':
        env = frozenset([(n, v) for n, v in self.env if n != name] + [(name, term)])
        return SymState(env, self.heap, self.conds, self.trail, self.ret)

    def field(self, token: str, fld: str) -> Optional[str]:
        for t, f, v in self.heap:
            if t == token and f == fld:
                return v
        return None

    def set_field(self, token: str, fld: str, term: str) -> 'SymState':
        heap = frozenset([(t, f, v) for t, f, v in self.heap if not (t == token and f == fld)]
                         + [(token, fld, term)])
        return SymState(self.env, heap, self.conds, self.trail, self.ret)

    def fields_of(self, token: str) -> Tuple[Tuple[str, str], ...]:
        return tuple(sorted((f, v) for t, f, v in self.heap if t == token))

    def add_cond(self, c: str) -> 'SymState':
        if c in self.conds:
            return self
        opp = ('-' if c[0] == '+' else '+') + c[1:] if c[0] in '+-' else None
        conds = tuple(x for x in self.conds if x != opp) + (c,)
        return SymState(self.env, self.heap, conds, self.trail, self.ret)

    def add_event(self, ev: Event) -> 'SymState':
        same = sum(1 for e in self.trail if (e.kind, e.callee, e.args, e.kwargs, e.snap, e.line) ==
                   (ev.kind, ev.callee, ev.args, ev.kwargs, ev.snap, ev.line))
        if same >= 2:
            return self
        return SymState(self.env, self.heap, self.conds, self.trail + (ev,), self.ret)

    def with_ret(self, r: Optional[str]) -> 'SymState':
        return SymState(self.env, self.heap, self.conds, self.trail, r)


def empty_state(env: Optional[Dict[str, str]] = None) -> SymState:
    return SymState(frozenset((env or {}).items()), frozenset(), (), ())


TERM_LIMIT = 6000

_TOKEN_RE = __import__('re').compile(r'^NEW_\w+_L\d+$')


def is_token(term: str) -> bool:
    return bool(_TOKEN_RE.match(term))


def token_class(term: str) -> str:
    # NEW_<Class>_L<line>
    return term[4:].rsplit('_L', 1)[0]


class _Subst(ast.NodeTransformer):
    def __init__(self, client: 'SymClient', state: SymState):
        self.client = client
        self.state = state

    def visit_Name(self, node: ast.Name):
        if isinstance(node.ctx, ast.Load):
            v = self.state.get(node.id)
            if v is not None:
                try:
                    return ast.parse(v, mode='eval').body
                except SyntaxError:
                    return ast.Name(id=v, ctx=ast.Load())
        return node

    def visit_Attribute(self, node: ast.Attribute):
        node = self.generic_visit(node)
        v = None
        if isinstance(node.value, ast.Name) and is_token(node.value.id):
            v = self.state.field(node.value.id, node.attr)
        elif isinstance(node.ctx, ast.Load):
            try:
                base = ast.unparse(node.value)
            except Exception:
                base = None
            if base is not None:
                v = self.state.field('EXT:' + base, node.attr)
        if v is not None:
            try:
                return ast.parse(v, mode='eval').body
            except SyntaxError:
                return ast.Name(id=v, ctx=ast.Load())
        return node

    def visit_Lambda(self, node):
        return node

    def visit_NamedExpr(self, node):
        # ``(x := e)`` has the value of e (the binding itself is made by SymClient._eval)
        return self.visit(node.value)

    def visit_Call(self, node):
        # a constructor call of a package class denotes the object created there
        tok = None
        if hasattr(node, 'lineno') and getattr(node, '_pnd_orig', False):
            known = self.state.get(_retkey(node))
            if known is not None:
                try:
                    return ast.parse(known, mode='eval').body
                except SyntaxError:
                    return ast.Name(id=known, ctx=ast.Load())
            r = self.client._resolve_callee(node.func, None)
            if isinstance(r, ClassRef):
                tok = self.client.new_token(r.name, node)
            elif self.client.fresh_of is not None:
                tok = self.client.fresh_token(node, self.state)
        node = self.generic_visit(node)
        if tok is not None:
            return ast.Name(id=tok, ctx=ast.Load())
        return node

    def visit_GeneratorExp(self, node):
        return self._comp(node)

    def visit_ListComp(self, node):
        return self._comp(node)

    def visit_SetComp(self, node):
        return self._comp(node)

    def visit_DictComp(self, node):
        return self._comp(node)

    def _comp(self, node):
        # substitute free variables only: bound comprehension targets shadow the env
        bound = set()
        for g in node.generators:
            for n in ast.walk(g.target):
                if isinstance(n, ast.Name):
                    bound.add(n.id)
        saved = self.state
        env = frozenset((n, v) for n, v in saved.env if n not in bound)
        self.state = SymState(env, saved.heap, saved.conds, saved.trail)
        try:
            return self.generic_visit(node)
        finally:
            self.state = saved


def _seq_parts(e: ast.expr) -> Optional[List[ast.expr]]:
    """elements of a sequence-valued term as a flat list of elements / Starred(iterable), or None if it is not a display,
    ``list(...)``, ``chain(...)`` or a concatenation of those"""
    if isinstance(e, (ast.List, ast.Tuple)):
        out: List[ast.expr] = []
        for x in e.elts:
            if isinstance(x, ast.Starred):
                inner = _seq_parts(x.value)
                out.extend(inner if inner is not None else [x])
            else:
                out.append(x)
        return out
    if isinstance(e, ast.Call) and not e.keywords:
        fn = ast.unparse(e.func)
        if fn in ('list', 'tuple') and len(e.args) == 1:
            inner = _seq_parts(e.args[0])
            return inner if inner is not None else [ast.Starred(value=e.args[0], ctx=ast.Load())]
        if fn in ('list', 'tuple') and not e.args:
            return []
        if fn in ('chain', 'itertools.chain'):
            out = []
            for a in e.args:
                inner = _seq_parts(a)
                out.extend(inner if inner is not None else [ast.Starred(value=a, ctx=ast.Load())])
            return out
    if isinstance(e, ast.BinOp) and isinstance(e.op, ast.Add):
        a, b = _seq_parts(e.left), _seq_parts(e.right)
        if a is not None and b is not None and (isinstance(e.left, (ast.List, ast.Call)) or isinstance(e.right, (ast.List, ast.Call))):
            return a + b
    return None


# record types of the package: ``Name = collections.namedtuple('Name', [fields])`` -> field names (filled in by Repo)
NAMEDTUPLE_FIELDS: Dict[str, List[str]] = {}


class _Simplify(ast.NodeTransformer):
    """Projections of literal containers: ``(a, b)[1]`` -> ``b``, ``{'k': v}['k']`` -> ``v`` (a helper that returns a
    tuple / builds a keyword dict does not hide the values it passes on)."""

    def visit_Call(self, node):
        node = self.generic_visit(node)
        # getattr(o, 'name') -> o.name
        if isinstance(node.func, ast.Name) and node.func.id == 'getattr' and len(node.args) == 2 and not node.keywords \
                and isinstance(node.args[1], ast.Constant) and isinstance(node.args[1].value, str) and node.args[1].value.isidentifier():
            return ast.Attribute(value=node.args[0], attr=node.args[1].value, ctx=ast.Load())
        # list(chain([a], gen, [b])) -> [a, *gen, b]: one spelling for a sequence however it was put together
        if isinstance(node.func, ast.Name) and node.func.id == 'list' and len(node.args) == 1 and not node.keywords \
                and isinstance(node.args[0], (ast.Call, ast.List, ast.Tuple, ast.BinOp)):
            parts = _seq_parts(node)
            if parts is not None and not (len(parts) == 1 and isinstance(parts[0], ast.Starred) and parts[0].value is node.args[0]):
                return ast.List(elts=parts, ctx=ast.Load())
        return node

    def visit_Attribute(self, node):
        node = self.generic_visit(node)
        # PContextDef(a, b, c).sop_class -> b: a record built in place does not hide the value it carries
        v = node.value
        if isinstance(node.ctx, ast.Load) and isinstance(v, ast.Call) and not any(isinstance(a, ast.Starred) for a in v.args) \
                and not any(k.arg is None for k in v.keywords):
            nm = v.func.id if isinstance(v.func, ast.Name) else v.func.attr if isinstance(v.func, ast.Attribute) else None
            fields = NAMEDTUPLE_FIELDS.get(nm)
            if fields and node.attr in fields and len(v.args) + len(v.keywords) <= len(fields):
                i = fields.index(node.attr)
                if i < len(v.args):
                    return v.args[i]
                for k in v.keywords:
                    if k.arg == node.attr:
                        return k.value
        return node

    def visit_BinOp(self, node):
        node = self.generic_visit(node)
        if isinstance(node.op, ast.Add) and isinstance(node.left, ast.List) and isinstance(node.right, ast.List):
            return ast.List(elts=list(node.left.elts) + list(node.right.elts), ctx=ast.Load())
        return node

    def visit_Subscript(self, node):
        node = self.generic_visit(node)
        v, sl = node.value, node.slice
        # x[a:b][i] -> x[a + i]
        if isinstance(sl, ast.Constant) and isinstance(sl.value, int) and not isinstance(sl.value, bool) and sl.value >= 0 \
                and isinstance(v, ast.Subscript) and isinstance(v.slice, ast.Slice) and v.slice.step is None \
                and not isinstance(node.ctx, ast.Store):
            lo = v.slice.lower
            lo_v = 0 if lo is None else lo.value if isinstance(lo, ast.Constant) and isinstance(lo.value, int) and lo.value >= 0 else None
            hi = v.slice.upper
            hi_v = None if hi is None else hi.value if isinstance(hi, ast.Constant) and isinstance(hi.value, int) and hi.value >= 0 else -1
            if lo_v is not None and hi_v != -1 and (hi_v is None or lo_v + sl.value < hi_v):
                return ast.Subscript(value=v.value, slice=ast.Constant(value=lo_v + sl.value), ctx=ast.Load())
        if isinstance(sl, ast.Constant) and not isinstance(node.ctx, ast.Store):
            if isinstance(v, (ast.Tuple, ast.List)) and isinstance(sl.value, int) and not isinstance(sl.value, bool) \
                    and -len(v.elts) <= sl.value < len(v.elts) and not any(isinstance(x, ast.Starred) for x in v.elts):
                return v.elts[sl.value]
            if isinstance(v, ast.Dict) and all(isinstance(k, ast.Constant) for k in v.keys):
                for k, val in zip(v.keys, v.values):
                    if k.value == sl.value and type(k.value) is type(sl.value):
                        return val
        return node


def _comprehension_item(term: str):
    """(item term, [filter terms]) for a term that is a one-generator list comprehension / generator expression"""
    if not (term[:1] in '[(' and ' for ' in term):
        return None
    try:
        e = ast.parse(term, mode='eval').body
    except SyntaxError:
        return None
    if not (isinstance(e, (ast.ListComp, ast.GeneratorExp)) and len(e.generators) == 1 and not e.generators[0].is_async):
        return None
    g = e.generators[0]
    src = 'ITEM(%s)' % ast.unparse(g.iter)
    env: Dict[str, ast.expr] = {}
    if isinstance(g.target, ast.Name):
        env[g.target.id] = ast.parse(src, mode='eval').body
    elif isinstance(g.target, (ast.Tuple, ast.List)) and all(isinstance(x, ast.Name) for x in g.target.elts):
        for i, x in enumerate(g.target.elts):
            env[x.id] = ast.parse('%s[%d]' % (src, i), mode='eval').body
    else:
        return None

    class B(ast.NodeTransformer):
        def visit_Name(self, n):
            if n.id in env and isinstance(n.ctx, ast.Load):
                import copy as _copy
                return _copy.deepcopy(env[n.id])
            return n
    import copy as _copy
    if any(isinstance(y, (ast.ListComp, ast.GeneratorExp, ast.DictComp, ast.SetComp, ast.Lambda)) for y in ast.walk(e.elt)):
        return None
    item = ast.unparse(_Simplify().visit(B().visit(_copy.deepcopy(e.elt))))
    conds = [ast.unparse(_Simplify().visit(B().visit(_copy.deepcopy(c)))) for c in g.ifs]
    return item, conds


def _caching_decorator(fi) -> bool:
    for d in getattr(fi.node, 'decorator_list', []):
        t = ast.unparse(d).split('(')[0].split('.')[-1]
        if t in ('lru_cache', 'cache', 'cached_property'):
            return True
    return False


def _literal_truth(term: str) -> Optional[bool]:
    """truth value of a term that is a literal (``0``, ``''``, ``b''``, ``()``, ``[]``, ``3``, ``not 0``), else None"""
    t = term.strip()
    neg = False
    while t.startswith('not '):
        t, neg = t[4:].strip(), not neg
    if t in ('True', 'False', 'None'):
        return (t != 'True') if neg else (t == 'True')
    if not t or not (t[0] in '0123456789\'"([{-' or t[:2] in ("b'", 'b"') or t.startswith('len(') or t.startswith('isinstance(')):
        return None
    try:
        v = ast.literal_eval(t)
    except (ValueError, SyntaxError, MemoryError, RecursionError):
        try:
            v = _const_eval(ast.parse(t, mode='eval').body)
        except (ValueError, SyntaxError, MemoryError, RecursionError, TypeError, ZeroDivisionError):
            return None
    return (not bool(v)) if neg else bool(v)


def _const_eval(e):
    """value of an expression built from literals, ``len()`` of a literal, comparisons, ``+ - *`` and ``not / and / or``"""
    if isinstance(e, ast.Constant):
        return e.value
    if isinstance(e, (ast.Tuple, ast.List)):
        return tuple(_const_eval(x) for x in e.elts)
    if isinstance(e, ast.Call) and isinstance(e.func, ast.Name) and e.func.id == 'len' and len(e.args) == 1 and not e.keywords:
        v = _const_eval(e.args[0])
        if isinstance(v, (str, bytes, tuple)):
            return len(v)
        raise ValueError
    if isinstance(e, ast.UnaryOp) and isinstance(e.op, ast.Not):
        return not _const_eval(e.operand)
    if isinstance(e, ast.UnaryOp) and isinstance(e.op, ast.USub):
        v = _const_eval(e.operand)
        if type(v) is int:
            return -v
        raise ValueError
    if isinstance(e, ast.BinOp) and isinstance(e.op, (ast.Add, ast.Sub, ast.Mult)):
        a, b = _const_eval(e.left), _const_eval(e.right)
        if type(a) is int and type(b) is int and abs(a) < 1 << 32 and abs(b) < 1 << 32:
            return a + b if isinstance(e.op, ast.Add) else a - b if isinstance(e.op, ast.Sub) else a * b
        raise ValueError
    if isinstance(e, ast.Compare) and len(e.ops) > 1:
        # a chain is the conjunction of its links
        operands = [e.left] + list(e.comparators)
        return all(_const_eval(ast.Compare(left=operands[i], ops=[e.ops[i]], comparators=[operands[i + 1]])) for i in range(len(e.ops)))
    if isinstance(e, ast.Call) and isinstance(e.func, ast.Name) and e.func.id == 'isinstance' and len(e.args) == 2 and not e.keywords:
        # the type of a literal against the built-in types and six's names for them (Python 3)
        v = _const_eval(e.args[0])
        names = {'int': (int,), 'six.integer_types': (int,), 'integer_types': (int,), 'str': (str,), 'six.string_types': (str,),
                 'six.text_type': (str,), 'bytes': (bytes,), 'six.binary_type': (bytes,), 'float': (float,), 'bool': (bool,),
                 'tuple': (tuple,), 'numbers.Integral': (int,)}
        t_ = e.args[1]
        elts = t_.elts if isinstance(t_, ast.Tuple) else [t_]
        kinds = ()
        for x in elts:
            k_ = names.get(ast.unparse(x))
            if k_ is None:
                raise ValueError
            kinds += k_
        if v is None or isinstance(e.args[0], ast.List):
            raise ValueError
        return isinstance(v, kinds)
    if isinstance(e, ast.Compare) and len(e.ops) == 1 and isinstance(e.ops[0], (ast.Lt, ast.LtE, ast.Gt, ast.GtE, ast.Eq, ast.NotEq)):
        a, b = _const_eval(e.left), _const_eval(e.comparators[0])
        if type(a) is not type(b) or type(a) not in (int, str, bytes):
            raise ValueError
        op = e.ops[0]
        return a < b if isinstance(op, ast.Lt) else a <= b if isinstance(op, ast.LtE) else a > b if isinstance(op, ast.Gt) \
            else a >= b if isinstance(op, ast.GtE) else a == b if isinstance(op, ast.Eq) else a != b
    if isinstance(e, ast.Subscript) and isinstance(e.slice, ast.Slice) and e.slice.step is None:
        v = _const_eval(e.value)
        lo = None if e.slice.lower is None else _const_eval(e.slice.lower)
        hi = None if e.slice.upper is None else _const_eval(e.slice.upper)
        if isinstance(v, (str, bytes, tuple)) and all(x is None or type(x) is int for x in (lo, hi)):
            return v[lo:hi]
    raise ValueError


def _balanced(t: str) -> bool:
    """is ``t`` one parenthesised-balanced expression text with no top-level comma (so ``bool(t)`` was a one-argument call)?"""
    d = 0
    for ch in t:
        if ch in '([{':
            d += 1
        elif ch in ')]}':
            d -= 1
            if d < 0:
                return False
        elif ch == ',' and d == 0:
            return False
    return d == 0 and bool(t)


class SymClient(Client):
    """Provenance client.  Sub-class or configure with callbacks:

    ``event_of(call, callee_text, client, state) -> Optional[str]``  kind of an interesting call
    ``inline(funcinfo) -> bool``  whether a resolved package function is inlined at its call sites
    """

    def __init__(self, repo: Repo, f: FuncInfo, event_of: Callable, inline: Optional[Callable] = None,
                 hierarchy: Optional[ExcHierarchy] = None, raises_of: Optional[Callable] = None,
                 depth: int = 0, branch_hook: Optional[Callable] = None,
                 store_event: Optional[Callable] = None, field_event: Optional[Callable] = None,
                 bool_returns: bool = False, fresh_of: Optional[Callable] = None, inline_generators: bool = False):
        self.repo = repo
        self.bool_returns = bool_returns
        # fresh_of(call, callee_text, client, state) -> prefix or None: calls whose result differs each time they are
        # evaluated (stream reads) denote a token named after the call site instead of the call text
        self.fresh_of = fresh_of
        self.inline_generators = inline_generators
        self.loops: List[Tuple['SymClient', ast.AST, SymState]] = []   # (client, loop node, entry state), shared with sub-clients
        # set while a helper is inlined: its statements are attributed to the line of the call in the analysed function
        self.site_line: Optional[int] = None
        self.f = f
        self.mod = f.module
        self.cls = f.cls
        self.event_of = event_of
        # helpers (private / newly introduced functions the rules do not anchor on) are always looked into
        self._user_inline = inline
        # ... and so are closures defined inside the analysed function (they see its locals)
        self.inline = (lambda fi: bool(inline(fi)) or repo.is_helper(fi) or fi.parent is not None) if inline is not None \
            else (lambda fi: repo.is_helper(fi) or fi.parent is not None)
        self.raises_of = raises_of
        self.branch_hook = branch_hook
        self.store_event = store_event
        self.field_event = field_event
        if hierarchy is not None:
            self.hierarchy = hierarchy
        self.depth = depth
        self._pending_exc = set()
        # every event ever emitted with the state it was emitted in (events inside loop
        # bodies are widened away from the final states but stay visible here)
        self.log: List[Tuple[Event, SymState]] = []

    def emit(self, s: SymState, ev: Event) -> SymState:
        # (the log may be appended to by sub-clients as well: the key set is rebuilt when it has fallen behind)
        keys = self.__dict__.get('_log_keys')
        if keys is None or self.__dict__.get('_log_len') != len(self.log):
            keys = set()
            for e, st in self.log:
                try:
                    keys.add((e, st.trail))
                except TypeError:
                    keys = None
                    break
            self._log_keys = keys
        if keys is None:
            if not any(e == ev and st.trail == s.trail for e, st in self.log):
                self.log.append((ev, s))
        else:
            k = (ev, s.trail)
            if k not in keys:
                keys.add(k)
                self.log.append((ev, s))
        self._log_len = len(self.log)
        return s.add_event(ev)

    # ------------------------------------------------------------------ terms
    def term(self, e: Optional[ast.expr], s: SymState, heap_ext: bool = True) -> str:
        if e is None:
            return 'None'
        if not heap_ext:
            s = SymState(s.env, frozenset(h for h in s.heap if not h[0].startswith('EXT:')), s.conds, s.trail)
        e1 = copy.deepcopy(e)
        for n in ast.walk(e1):
            if isinstance(n, ast.Call):
                n._pnd_orig = True
        e2 = _Simplify().visit(_Subst(self, s).visit(e1))
        ast.fix_missing_locations(e2)
        out = ast.unparse(e2)
        if len(out) > TERM_LIMIT:
            # a value built up through many substitutions (records collected in a loop, say): no rule reads a term of this size;
            # what stands for it is an opaque name derived from it, equal for equal values
            import hashlib
            out = 'BIG_%s' % hashlib.sha1(out.encode()).hexdigest()[:12]
        return out

    def fresh_token(self, call: ast.Call, s: SymState) -> Optional[str]:
        if self.fresh_of is None:
            return None
        saved, self.fresh_of = self.fresh_of, None      # the callee text itself is computed without tokens for this call
        try:
            callee = self.term(call.func, s, heap_ext=False)
        finally:
            self.fresh_of = saved
        pref = self.fresh_of(call, callee, self, s)
        if not pref:
            return None
        return '%s_L%d_%d' % (pref, self.site_line or getattr(call, 'lineno', 0), getattr(call, 'col_offset', 0))

    def new_token(self, cname: str, node: ast.AST) -> str:
        """``NEW_<Class>_L<line>``: one token per allocation site.  Statements moved to a call site by inlining share its line:
        a second site of the same class on the same line gets ``<line>`` followed by a three-digit index."""
        line = self.site_line or getattr(node, 'lineno', 0)
        reg = getattr(self, 'alloc_sites', None)
        if reg is None:
            reg = self.alloc_sites = {}
        sites = reg.setdefault((cname, line), [])
        # (terms are re-parsed while they are simplified: the node object is not a stable identity, its text and column are)
        try:
            key = (getattr(node, 'col_offset', 0), ast.unparse(node))
        except Exception:
            key = (getattr(node, 'col_offset', 0), '')
        if key not in sites:
            sites.append(key)
        k = sites.index(key)
        return 'NEW_%s_L%d' % (cname, line if k == 0 else line * 1000 + k)

    # ---------------------------------------------------------------- running
    def run(self, init: Optional[SymState] = None):
        flow = Flow(self)
        self.flow = flow
        st = init or empty_state()
        o = flow.run(body_without_docstring(self.f.node), [st])
        return o

    def final_states(self, o) -> List[Tuple[SymState, str]]:
        out = []
        for s, _ in o.ret:
            out.append((s, 'return'))
        for s in o.fall:
            out.append((s, 'fall'))
        for s, e in o.exc:
            out.append((s, 'raise:' + e))
        return out

    # ---------------------------------------------------------------- effects
    def _find_class(self, cname: str):
        for m in self.repo.modules.values():
            if cname in m.classes:
                return m.classes[cname]
        return None

    def _resolve_callee(self, fn: ast.expr, s: Optional[SymState] = None):
        if s is not None and isinstance(fn, ast.Attribute):
            recv = self.term(fn.value, s, heap_ext=False)
            if is_token(recv):
                c = self._find_class(token_class(recv))
                if c is not None:
                    m = c.find_method(fn.attr)
                    if m is not None and m.kind in ('method', 'staticmethod', 'classmethod'):
                        return FuncRef(m.module.name, m.qualname)
            if recv.startswith('super('):
                # super(X, self).m(): the next class after the current one in the MRO
                if self.cls is not None:
                    for c in self.cls.mro()[1:]:
                        if fn.attr in c.methods:
                            m = c.methods[fn.attr]
                            return FuncRef(m.module.name, m.qualname)
        if s is not None and isinstance(fn, (ast.Name, ast.Attribute)):
            # a callable received as a value (``rsp_class()`` with rsp_class bound to a message class)
            t = self.term(fn, s, heap_ext=False)
            if t != ast.unparse(fn):
                try:
                    r0 = self.repo.resolve_expr(ast.parse(t, mode='eval').body, self.mod, self.cls)
                    if isinstance(r0, (ClassRef, FuncRef)):
                        return r0
                except (NotConst, SyntaxError):
                    # a term made in another module's namespace (``cls`` bound to ``pdu.X`` by the caller of a classmethod):
                    # ``<package module>.<name>`` means the same everywhere
                    try:
                        e0 = ast.parse(t, mode='eval').body
                        if isinstance(e0, ast.Attribute) and isinstance(e0.value, ast.Name) and e0.value.id in self.repo.modules:
                            r0 = self.repo.resolve_name(e0.attr, self.repo.modules[e0.value.id])
                            if isinstance(r0, (ClassRef, FuncRef)):
                                return r0
                    except (NotConst, SyntaxError):
                        pass
                d0 = self._dispatch_targets(t)
                if d0 is not None:
                    return d0
        if isinstance(fn, ast.Name):
            # a function defined inside the analysed one (or inside an enclosing one)
            f0 = self.f
            while f0 is not None:
                if fn.id in f0.nested:
                    n0 = f0.nested[fn.id]
                    return FuncRef(n0.module.name, n0.qualname)
                f0 = f0.parent
        ch = attr_chain(fn)
        if ch and len(ch) == 2 and ch[0] in ('self', 'cls') and self.cls is not None:
            m = self.cls.find_method(ch[1])
            if m is not None and m.kind in ('method', 'staticmethod', 'classmethod'):
                return FuncRef(m.module.name, m.qualname)
        try:
            r = self.repo.resolve_expr(fn, self.mod, self.cls)
        except NotConst:
            # ``<object>.m(...)`` where m is a helper method (see Repo.is_helper) defined by exactly one class of the package
            # and by nothing else: the call can only mean that method, whatever the receiver is
            if isinstance(fn, ast.Attribute):
                u = self.repo.unique_helper_method(fn.attr)
                if u is not None:
                    return FuncRef(u.module.name, u.qualname)
            return None
        if isinstance(r, ClassRef):
            try:
                if self.repo.is_value_class(self.repo.cls(r.module, r.name)):
                    return None      # a record type: its instances are their constructor calls
            except AnalysisError:
                pass
        return r

    def _dispatch_targets(self, term: str):
        """``self.TABLE[k]`` where TABLE is a class-level dict whose values are functions of the class body:
        ('dispatch', key term, [(constant key, FuncInfo), ...])"""
        try:
            e = ast.parse(term, mode='eval').body
        except SyntaxError:
            return None
        if not (isinstance(e, ast.Subscript) and self.cls is not None):
            return None
        ch = attr_chain(e.value)
        if not (ch and len(ch) == 2 and ch[0] in ('self', 'cls', self.cls.name)):
            return None
        hit = self.cls.find_attr(ch[1])
        if hit is None or not isinstance(hit[1], ast.Dict):
            return None
        out = []
        for k, v in zip(hit[1].keys, hit[1].values):
            if k is None or not isinstance(v, ast.Name):
                return None
            m = hit[0].find_method(v.id)
            kk = self.repo.try_fold(k, hit[0].module, hit[0])
            if m is None or kk is None:
                return None
            out.append((kk, m))
        return ('dispatch', ast.unparse(e.slice), out)

    def _call(self, call: ast.Call, s: SymState) -> List[SymState]:
        """Record events / allocate objects / inline callees for one call."""
        callee_txt = self.term(call.func, s, heap_ext=False)
        kind = self.event_of(call, callee_txt, self, s)
        if kind:
            args = tuple(self.value_term(a, s.with_ret(None)) if not isinstance(a, ast.Starred) else '*' + self.term(a.value, s)
                         for a in call.args)
            kwargs = tuple(self._kwargs(call, s.with_ret(None)))
            # a package function called with keywords: canonical positional order (``f(x, last=3, normal=1)``
            # is ``f(x, 1, 3)``), defaults filled in up to the last parameter given
            r0 = self._resolve_callee(call.func, s)
            if isinstance(r0, FuncRef) and kwargs and not any(a.startswith('*') for a in args) and all(k != '**' for k, _ in kwargs):
                try:
                    fi0 = self.repo.func(r0.module, r0.qualname)
                except AnalysisError:
                    fi0 = None
                if fi0 is not None and not fi0.node.args.vararg:
                    ps = fi0.params
                    if fi0.kind in ('method', 'classmethod') and isinstance(call.func, ast.Attribute):
                        ps = ps[1:]
                    kd = dict(kwargs)
                    dfl = fi0.node.args.defaults
                    dmap = {p_: ast.unparse(d_) for p_, d_ in zip(ps[len(ps) - len(dfl):], dfl)}
                    if all(k in ps[len(args):] for k in kd):
                        last = max(ps.index(k) for k in kd)
                        canon = list(args)
                        ok = True
                        for p_ in ps[len(args):last + 1]:
                            if p_ in kd:
                                canon.append(kd[p_])
                            elif p_ in dmap:
                                canon.append(dmap[p_])
                            else:
                                ok = False
                                break
                        if ok:
                            args, kwargs = tuple(canon), ()
            snap = []
            for a in list(args) + [v for _, v in kwargs]:
                if is_token(a):
                    snap.append((a, s.fields_of(a)))
            ft = self.fresh_token(call, s)
            if ft is not None:
                kwargs = tuple(kwargs) + (('=', ft),)     # the token this call's result is known by
            s = self.emit(s, Event(kind, callee_txt, args, kwargs, tuple(snap), self.site_line or call.lineno, s.conds, self.f.key))
        if isinstance(call.func, ast.Attribute) and call.func.attr in ('append', 'extend') and isinstance(call.func.value, ast.Name) \
                and len(call.args) == 1 and not call.keywords and s.get(call.func.value.id) is not None:
            cur = s.get(call.func.value.id)
            try:
                ce = ast.parse(cur, mode='eval').body
            except SyntaxError:
                ce = None
            if isinstance(ce, ast.List):
                v = self.value_term(call.args[0], s)
                try:
                    ve = ast.parse(v, mode='eval').body
                except SyntaxError:
                    ve = None
                if ve is not None:
                    opened = sum(1 for e_ in s.trail if e_.kind == 'loop') - sum(1 for e_ in s.trail if e_.kind == 'loopexit')
                    if call.func.attr == 'extend':
                        new_el = _seq_parts(ve) or [ast.Starred(value=ve, ctx=ast.Load())]
                        if opened > 0:
                            new_el = [ast.Starred(value=ast.Call(func=ast.Name(id='MAP', ctx=ast.Load()), args=[ve], keywords=[]),
                                                  ctx=ast.Load())]
                    elif isinstance(ve, ast.Call) and isinstance(ve.func, ast.Name) and ve.func.id == 'ITEM' and len(ve.args) == 1:
                        new_el = [ast.Starred(value=ve.args[0], ctx=ast.Load())]     # appending every item of S: [*S]
                    elif 'ITEM(' in v or opened > 0:
                        new_el = [ast.Starred(value=ast.Call(func=ast.Name(id='MAP', ctx=ast.Load()), args=[ve], keywords=[]),
                                              ctx=ast.Load())]
                    else:
                        new_el = [ve]
                    elts = list(ce.elts)
                    # idempotent for the per-item forms, so that a loop reaches its fix-point
                    have = {ast.unparse(x) for x in elts if isinstance(x, ast.Starred)}
                    if not (new_el and isinstance(new_el[0], ast.Starred) and ast.unparse(new_el[0]) in have):
                        elts = elts + new_el
                    nl = ast.List(elts=elts, ctx=ast.Load())
                    ast.fix_missing_locations(nl)
                    s = s.set(call.func.value.id, ast.unparse(nl))
                    if not kind:
                        return [s]
        if callee_txt == 'setattr' and len(call.args) == 3 and not call.keywords:
            nm = self.term(call.args[1], s)
            try:
                ne = ast.parse(nm, mode='eval').body
            except SyntaxError:
                ne = None
            if isinstance(ne, ast.Constant) and isinstance(ne.value, str) and ne.value.isidentifier():
                tgt = ast.Attribute(value=call.args[0], attr=ne.value, ctx=ast.Store())
                ast.copy_location(tgt, call)
                ast.fix_missing_locations(tgt)
                return [self.assign(tgt, call.args[2], self.value_term(call.args[2], s), s)]
        r = self._resolve_callee(call.func, s)
        if isinstance(r, tuple) and r and r[0] == 'dispatch' and self.depth < 6:
            # a call through a table of handlers: each entry is a possible callee, under the condition that selects it
            outs: List[SymState] = []
            seen_fi = {}
            for kk, fi in r[2]:
                seen_fi.setdefault(fi.key, (fi, []))[1].append(kk)
            key = _retkey(call)
            for fi, keys in seen_fi.values():
                if _is_generator(fi.node):
                    continue
                s_k = s.add_cond('+%s in %r' % (r[1], tuple(keys))) if len(keys) > 1 else s.add_cond('+%s == %r' % (r[1], keys[0]))
                outs.extend(o_.set(key, o_.ret) if o_.ret is not None else o_ for o_ in self._inline(fi, call, s_k))
            return outs or [s]
        if isinstance(r, ClassRef):
            tok = self.new_token(r.name, call)
            s_a = self._alloc(call, tok, s)
            ci = self.repo.cls(r.module, r.name)
            init = ci.find_method('__init__')
            if init is not None and self.repo.is_helper_class(ci) and self.depth < 6 and not _is_generator(init.node):
                # a class introduced after the rules were confirmed: its constructor is looked into, the new object is
                # ``self`` inside it
                outs = self._inline(init, call, s_a, self_term=tok)
                return [o_.with_ret(None) for o_ in outs] or [s_a]
            return [s_a]
        if isinstance(r, FuncRef):
            fi = self.repo.func(r.module, r.qualname)
            if _caching_decorator(fi) and not self.repo.cached_value_factory(fi):
                return [s]       # functools.lru_cache / cache: what the call returns is not what one run of the body builds
            if self.inline(fi) and self.depth < 6 and not _is_generator(fi.node):
                key = _retkey(call)
                return [o_.set(key, o_.ret) if o_.ret is not None else o_ for o_ in self._inline(fi, call, s)]
            if self.inline_generators and self.depth < 6 and _is_generator(fi.node) and \
                    (fi.parent is not None or self.inline(fi) or (fi.cls is not None and self.cls is not None and fi.cls.key in
                                                                  [c_.key for c_ in self.cls.mro()])):
                # the generator's body is run at the call: what it yields is recorded as events, in order
                outs = self._inline(fi, call, s)
                return [o_.with_ret(None) for o_ in outs]
        return [s]

    def _inline(self, fi: FuncInfo, call: ast.Call, s: SymState, self_term: Optional[str] = None) -> List[SymState]:
        params = fi.params
        env = {}
        if fi.parent is not None:
            env.update(dict(s.env))     # closure: a nested function sees the enclosing locals
        if self_term is not None and params:
            env[params[0]] = self_term
            params = params[1:]
        elif fi.kind in ('method', 'classmethod') and params and isinstance(call.func, ast.Attribute):
            recv = self.term(call.func.value, s, heap_ext=False)
            if recv.startswith('super('):
                recv = s.get('self') or 'self'
            if recv not in ('self', 'cls'):
                env[params[0]] = recv
            params = params[1:]
        for p, a in zip(params, call.args):
            env[p] = self.term(a, s)
        for kw in call.keywords:
            if kw.arg:
                env[kw.arg] = self.term(kw.value, s)
        # defaults
        a = fi.node.args
        defaults = a.defaults
        for p, d in zip(params[len(params) - len(defaults):], defaults):
            if p not in env:
                env[p] = ast.unparse(d)
            elif isinstance(d, ast.Constant) and d.value is None and env[p] != 'None' and self.repo.is_helper(fi) \
                    and not self._may_pass_none(call, fi, p):
                # ``def f(x, status=None)`` called with the argument given: None is the "not given" marker of a new helper, the
                # value passed explicitly is taken not to be None (the assumption the load-time inlining makes as well)
                env['?nn:' + p] = '1'
        sub = SymClient(self.repo, fi, self.event_of, self._user_inline, self.hierarchy, self.raises_of,
                        self.depth + 1, self.branch_hook, self.store_event, self.field_event, self.bool_returns,
                        self.fresh_of, self.inline_generators)
        sub.loops = self.loops
        if getattr(self, 'alloc_sites', None) is None:
            self.alloc_sites = {}
        sub.alloc_sites = self.alloc_sites
        sub.log = self.log
        sub.gen_token = self.fresh_token(call, s) if _is_generator(fi.node) else getattr(self, 'gen_token', None)
        sub.site_line = self.site_line if self.site_line else (call.lineno if self.repo.is_helper(fi) else None)
        init = SymState(frozenset(env.items()), s.heap, s.conds, s.trail)
        o = sub.run(init)
        outs = []
        for s2, _ in o.ret:
            # a return from inside a loop leaves that loop
            opened = 0
            for e_ in s2.trail[len(s.trail):]:
                if e_.kind == 'loop':
                    opened += 1
                elif e_.kind == 'loopexit':
                    opened -= 1
            tr2 = s2.trail
            for _k in range(max(opened, 0)):
                tr2 = tr2 + (Event('loopexit', 'return', (), (), (), self.site_line or call.lineno, s2.conds, fi.key),)
            s2 = SymState(s2.env, s2.heap, s2.conds, tr2, s2.ret)
            o_new = SymState(s.env, s2.heap, s2.conds, s2.trail, s2.ret or 'None')
            rk_ = _retkey(call)
            for pre_ in ('?t:', '?n:'):
                o_new = o_new.set(pre_ + rk_, s2.get(pre_ + '$ret') or '')
            outs.append(o_new)
        for s2 in o.fall:
            outs.append(SymState(s.env, s2.heap, s2.conds, s2.trail, 'None'))
        for s2, e in o.exc:
            self._pending_exc.add((SymState(s.env, s2.heap, s2.conds, s2.trail), e))
        return outs

    def _may_pass_none(self, call: ast.Call, fi: FuncInfo, p: str) -> bool:
        """is the argument given for parameter ``p`` a parameter of the calling function that itself defaults to None (the
        caller hands its own "not given" on)?"""
        params = fi.params[1:] if fi.kind in ('method', 'classmethod') and isinstance(call.func, ast.Attribute) else fi.params
        arg = None
        for q, a in zip(params, call.args):
            if q == p:
                arg = a
        for kw in call.keywords:
            if kw.arg == p:
                arg = kw.value
        if not isinstance(arg, ast.Name):
            return False
        a_ = self.f.node.args
        names = [x.arg for x in a_.args]
        defaults = dict(zip(names[len(names) - len(a_.defaults):], a_.defaults))
        for x, d in zip(a_.kwonlyargs, a_.kw_defaults):
            if d is not None:
                defaults[x.arg] = d
        d = defaults.get(arg.id)
        return isinstance(d, ast.Constant) and d.value is None

    def _eval(self, e: ast.AST, s: SymState) -> List[SymState]:
        """Effects of all calls inside ``e`` in evaluation order."""
        states = [s.with_ret(None)]
        for call in calls_in(e):
            nxt = []
            for st in states:
                nxt.extend(self._call(call, st))
            states = nxt
        # assignment expressions bind their target once the value is evaluated
        walrus = [n for n in ast.walk(e) if isinstance(n, ast.NamedExpr) and isinstance(n.target, ast.Name)] if not isinstance(e, ast.stmt) or True else []
        if walrus:
            nxt = []
            for st in states:
                for w in walrus:
                    st = st.set(w.target.id, self.value_term(w.value, st))
                nxt.append(st)
            states = nxt
        ys = _yields_in(e)
        if ys:
            nxt = []
            for st in states:
                for y in ys:
                    val = y.value
                    if isinstance(val, ast.Tuple):
                        args = tuple(self.value_term(x, st) for x in val.elts)
                    elif val is None:
                        args = ()
                    else:
                        t0 = self.value_term(val, st)
                        args = (t0,)
                        try:
                            te0 = ast.parse(t0, mode='eval').body
                        except SyntaxError:
                            te0 = None
                        if isinstance(te0, ast.Tuple) and not any(isinstance(x, ast.Starred) for x in te0.elts):
                            args = tuple(ast.unparse(x) for x in te0.elts)    # ``pair = (a, b); yield pair``
                    snap = tuple((a, st.fields_of(a)) for a in args if is_token(a))
                    st = self.emit(st, Event('yield', 'yield', args, (), snap, self.site_line or y.lineno, st.conds, self.f.key))
                nxt.append(st)
            states = nxt
        return states

    def value_term(self, e: ast.expr, s: SymState) -> str:
        """Term of an expression *after* its calls have been evaluated by _eval."""
        if isinstance(e, ast.Call):
            known = s.get(_retkey(e))
            if known is not None:
                return known      # the value the inlined callee returned on this path
            r = self._resolve_callee(e.func, s)
            if isinstance(r, ClassRef):
                return self.new_token(r.name, e)
            ft = self.fresh_token(e, s)
            if ft is not None:
                return ft
            if s.ret is not None and isinstance(r, tuple) and r and r[0] == 'dispatch':
                return s.ret
            if s.ret is not None and isinstance(r, FuncRef):
                fi = self.repo.func(r.module, r.qualname)
                if self.inline(fi) and not _is_generator(fi.node):
                    return s.ret
        return self.term(e, s)

    # ------------------------------------------------------ Client interface
    def expr(self, e, s):
        return self._eval(e, s)

    def stmt(self, st, s: SymState):
        if isinstance(st, ast.Expr):
            return [x.with_ret(None) for x in self._eval(st.value, s)]
        if isinstance(st, (ast.Assign, ast.AnnAssign)):
            if isinstance(st, ast.AnnAssign) and st.value is None:
                return [s]
            outs = []
            for s1 in self._eval(st.value, s):
                v = self.value_term(st.value, s1)
                if self.fresh_of is not None and ((isinstance(st.value, ast.List) and not st.value.elts) or
                                                  (isinstance(st.value, ast.Call) and isinstance(st.value.func, ast.Name)
                                                   and st.value.func.id == 'list' and not st.value.args)):
                    # an accumulator: the list object is known by its creation site
                    v = 'LIST_L%d_%d' % (self.site_line or st.value.lineno, st.value.col_offset)
                s1 = self._alloc(st.value, v, s1).with_ret(None)
                tgts = st.targets if isinstance(st, ast.Assign) else [st.target]
                for t in tgts:
                    s1 = self.assign(t, st.value, v, s1)
                outs.append(s1)
            return outs
        if isinstance(st, ast.AugAssign):
            outs = []
            for s1 in self._eval(st.value, s):
                s1 = s1.with_ret(None)
                op = type(st.op).__name__
                rhs = self.term(st.value, s1)
                if isinstance(st.target, ast.Name):
                    cur = s1.get(st.target.id) or st.target.id
                    mark = 'AUG_%s' % st.target.id
                    new = cur if cur.startswith(mark + '(') else '%s(%s, %r, %s)' % (mark, cur, op, rhs)
                    if op == 'Add' and cur.startswith('[') and cur != '[]' and not cur.startswith(mark + '('):
                        # a list written out on this path, extended in place: the value ``x = x + rhs`` would give the name
                        try:
                            new = ast.unparse(ast.BinOp(left=ast.parse(cur, mode='eval').body, op=ast.Add(),
                                                        right=ast.parse(rhs, mode='eval').body))
                        except SyntaxError:
                            pass
                    s1 = s1.set(st.target.id, new)
                else:
                    t = self.term(st.target, s1)
                    mark = 'AUG'
                    if isinstance(st.target, ast.Attribute) and is_token(self.term(st.target.value, s1, heap_ext=False)):
                        mark = 'AUG_%s' % st.target.attr      # a counter kept in an object created on this path: named after the field
                    new = t if t.startswith(mark + '(') else '%s(%s, %r, %s)' % (mark, t, op, rhs)
                    s1 = self.assign(st.target, None, new, s1)
                outs.append(s1)
            return outs
        if isinstance(st, ast.Assert):
            return self._eval(st.test, s)
        if isinstance(st, ast.Delete):
            return [s]
        return [s]

    def _alloc(self, value: ast.expr, term: str, s: SymState) -> SymState:
        """Constructor call: record the arguments as fields ``@<parameter>`` of the new object."""
        if not (isinstance(value, ast.Call) and is_token(term)):
            return s
        r = self._resolve_callee(value.func, s)
        if not isinstance(r, ClassRef):
            return s
        c = self.repo.cls(r.module, r.name)
        init = c.find_method('__init__')
        params = init.params[1:] if init is not None else []
        for i, a in enumerate(value.args):
            name = params[i] if i < len(params) else 'arg%d' % i
            s = s.set_field(term, '@' + name, self.value_term(a, s) if not isinstance(a, ast.Starred) else self.term(a.value, s))
        for k_, v_ in self._kwargs(value, s):
            if k_ != '**':
                s = s.set_field(term, '@' + k_, v_)
        return s

    def _kwargs(self, call: ast.Call, s: SymState):
        """(name, term) of the keyword arguments; ``**d`` with ``d`` a dict literal term is expanded."""
        out = []
        for kw in call.keywords:
            v = self.value_term(kw.value, s)
            if kw.arg:
                out.append((kw.arg, v))
                continue
            try:
                de = ast.parse(v, mode='eval').body
            except SyntaxError:
                de = None
            if isinstance(de, ast.Dict) and de.keys and all(isinstance(k, ast.Constant) and isinstance(k.value, str) for k in de.keys):
                out.extend((k.value, ast.unparse(x)) for k, x in zip(de.keys, de.values))
            else:
                out.append(('**', v))
        return out

    def assign(self, t: ast.expr, value: Optional[ast.expr], term: str, s: SymState) -> SymState:
        if isinstance(t, ast.Name):
            s = s.set(t.id, term)
            # what is known about the truth of the value the name holds (see atom_branch) travels with a plain copy and
            # ends with any other assignment
            src_ = value.id if isinstance(value, ast.Name) else \
                _retkey(value) if isinstance(value, ast.Call) else None
            for pre_ in ('?t:', '?n:'):
                mark = s.get(pre_ + src_) if src_ is not None else None
                if mark in ('+', '-'):
                    s = s.set(pre_ + t.id, mark)
                elif s.get(pre_ + t.id):
                    s = s.set(pre_ + t.id, '')
            return s
        if isinstance(t, (ast.Tuple, ast.List)):
            velts = None
            if value is not None and isinstance(value, (ast.Tuple, ast.List)) and len(value.elts) == len(t.elts):
                velts = value.elts
            telts = None
            if velts is None:
                # the value's *term* is a tuple literal (a helper that returns ``a, b``)
                try:
                    te = ast.parse(term, mode='eval').body
                except SyntaxError:
                    te = None
                if isinstance(te, (ast.Tuple, ast.List)) and len(te.elts) == len(t.elts) \
                        and not any(isinstance(x, ast.Starred) for x in te.elts + t.elts):
                    telts = [ast.unparse(x) for x in te.elts]
            for i, tt in enumerate(t.elts):
                if velts is not None:
                    s = self.assign(tt, velts[i], self.value_term(velts[i], s), s)
                elif telts is not None:
                    s = self.assign(tt, None, telts[i], s)
                else:
                    s = self.assign(tt, None, simplify_term('%s[%d]' % (_paren(term), i)), s)
            return s
        if isinstance(t, ast.Attribute):
            base = self.term(t.value, s)
            if self.store_event is not None and self.store_event(base + '.' + t.attr):
                s = self.emit(s, Event('store', base + '.' + t.attr, (term,), (), (), self.site_line or t.lineno, s.conds, self.f.key))
            if is_token(base):
                if self.field_event is not None and self.field_event(base, t.attr):
                    s = self.emit(s, Event('setfield', base + '.' + t.attr, (term,), (), (), self.site_line or t.lineno, s.conds, self.f.key))
                return s.set_field(base, t.attr, term)
            # a local that was bound to this very field before (``sock = self.dul_socket`` ... ``self.dul_socket = None``) goes on
            # holding the old value: what the path knew of the field (true / not None, or None) is from now on known of the
            # local, under marks of its own, and the local is noted as holding a value the field no longer has
            path_ = base + '.' + t.attr
            if term != path_:
                for n_, v_ in list(s.env):
                    if v_ == path_ and not n_.startswith(('?', '$')):
                        if any(c_ in ('+' + path_, '-not ' + path_, '+%s is not None' % path_, '-%s is None' % path_) for c_ in s.conds):
                            s = s.set('?n:' + n_, '-').set('?t:' + n_, '+')
                        elif any(c_ in ('+%s is None' % path_, '-%s is not None' % path_) for c_ in s.conds):
                            s = s.set('?n:' + n_, '+').set('?t:' + n_, '-')
                        s = s.set('$stale:' + n_, path_).add_cond('old:%s=%s' % (n_, path_))
            # write through a non-local object: record as event-free store on a pseudo token
            return s.set_field('EXT:' + base, t.attr, term)
        if isinstance(t, ast.Subscript):
            base = self.term(t.value, s)
            key = self.term(t.slice, s)
            # d['k'] = v on a local that holds a dict literal: the local now holds the extended literal
            if isinstance(t.value, ast.Name) and s.get(t.value.id) is not None:
                try:
                    de, ke = ast.parse(base, mode='eval').body, ast.parse(key, mode='eval').body
                    ve = ast.parse(term, mode='eval').body
                except SyntaxError:
                    de = ke = ve = None
                if isinstance(de, ast.Dict) and isinstance(ke, ast.Constant) and all(isinstance(k, ast.Constant) for k in de.keys):
                    keys, vals = list(de.keys), list(de.values)
                    for i_, k_ in enumerate(keys):
                        if k_.value == ke.value and type(k_.value) is type(ke.value):
                            vals[i_] = ve
                            break
                    else:
                        keys.append(ke)
                        vals.append(ve)
                    nd = ast.Dict(keys=keys, values=vals)
                    ast.fix_missing_locations(nd)
                    return s.set(t.value.id, ast.unparse(nd))
            if self.store_event is not None and self.store_event(base + '[]'):
                s = self.emit(s, Event('store', base + '[]', (key, term), (), (), self.site_line or t.lineno, s.conds, self.f.key))
            return s.set_field(('EXT:' + base) if not is_token(base) else base, '[%s]' % key, term)
        if isinstance(t, ast.Starred):
            return self.assign(t.value, None, '*' + term, s)
        return s

    def on_return(self, st, s: SymState):
        if st.value is None:
            return [s.with_ret('None')]
        if self.bool_returns and (isinstance(st.value, (ast.Compare, ast.BoolOp)) or
                                  (isinstance(st.value, ast.UnaryOp) and isinstance(st.value.op, ast.Not))):
            # ``return a > b`` is ``if a > b: return True / else: return False``
            t, f, exc = self.flow.cond(st.value, {s})
            self._pending_exc |= set(exc)
            return [x.with_ret('True') for x in t] + [x.with_ret('False') for x in f]
        outs = []
        for s1 in self._eval(st.value, s):
            if isinstance(st.value, ast.Name):
                for pre_ in ('?t:', '?n:'):
                    s1 = s1.set(pre_ + '$ret', s1.get(pre_ + st.value.id) or '')
            outs.append(s1.with_ret(self.value_term(st.value, s1)))
        return outs

    def atom_branch(self, test, s: SymState):
        outs_t, outs_f = [], []
        for s1 in self._eval(test, s):
            v = self.value_term(test, s1)
            inlined = s1.ret is not None and isinstance(test, ast.Call)
            s1 = s1.with_ret(None)
            if self.branch_hook is not None:
                r = self.branch_hook(test, self, s1)
                if r is not None:
                    outs_t.extend(r[0])
                    outs_f.extend(r[1])
                    continue
            if v == 'True' or is_token(v):
                outs_t.append(s1)
                continue
            if v in ('False', 'None'):
                outs_f.append(s1)
                continue
            lit = _literal_truth(v)
            if lit is not None:
                (outs_t if lit else outs_f).append(s1)
                continue
            dec = _decide_none_test(test, self, s1)
            if dec is None:
                dec = self._decide_hasattr(v)
            if dec is True:
                outs_t.append(s1)
                continue
            if dec is False:
                outs_f.append(s1)
                continue
            # ``if x:`` / ``if not x:`` on a local that was tested before and not assigned since: the stored value has the
            # truth it had then (even when its term contains a call: the name holds the result, nothing is called again)
            base_, neg_ = test, False
            while isinstance(base_, ast.UnaryOp) and isinstance(base_.op, ast.Not):
                base_, neg_ = base_.operand, not neg_
            if isinstance(base_, ast.Name) and not inlined:
                mark = s1.get('?t:' + base_.id)
                if mark in ('+', '-'):
                    ((outs_t if (mark == '+') != neg_ else outs_f)).append(s1)
                    continue
            txt = v if inlined else self.term(test, s1)
            tt, ff = self._split_truth(txt, s1)
            if isinstance(base_, ast.Name) and not inlined and base_.id in {n for n, _v in s1.env}:
                t_mark, f_mark = ('-', '+') if neg_ else ('+', '-')
                tt = [x.set('?t:' + base_.id, t_mark) for x in tt]
                ff = [x.set('?t:' + base_.id, f_mark) for x in ff]
            nt_ = _none_test_of_local(base_, s1)
            if nt_ is not None and not inlined:
                nm_, pos_ = nt_
                is_none_on_true = pos_ != neg_
                tt = [x.set('?n:' + nm_, '+' if is_none_on_true else '-') for x in tt]
                ff = [x.set('?n:' + nm_, '-' if is_none_on_true else '+') for x in ff]
            outs_t.extend(tt)
            outs_f.extend(ff)
        return outs_t, outs_f

    def _decide_hasattr(self, term: str) -> Optional[bool]:
        """``hasattr(<a class of the package>, 'name')``: decided from the class and its bases (when all of them are the
        package's own or ``object``)"""
        if not term.startswith('hasattr('):
            return None
        try:
            e = ast.parse(term, mode='eval').body
        except SyntaxError:
            return None
        if not (isinstance(e, ast.Call) and len(e.args) == 2 and not e.keywords and isinstance(e.args[1], ast.Constant)
                and isinstance(e.args[1].value, str)):
            return None
        k = None
        a0 = e.args[0]
        name = e.args[1].value
        if isinstance(a0, ast.Name) and a0.id == 'self' and self.cls is not None and self.f.kind == 'method' \
                and self.f.params and self.f.params[0] == 'self':
            # the object at hand: attributes of its class (and bases), or assigned through ``self`` in a method of them.  The
            # object may be of a subclass: only a positive answer is certain, a negative one when no subclass adds the name.
            fam = list(self.cls.mro())
            subs = [x for x in self.repo.subclasses(self.cls) if x.key != self.cls.key]
            def has(kls):
                if name in kls.attrs or name in kls.methods or name in kls.setters:
                    return True
                for fn_ in kls.methods.values():
                    for n_ in ast.walk(fn_.node):
                        if isinstance(n_, ast.Attribute) and n_.attr == name and isinstance(n_.ctx, ast.Store) \
                                and isinstance(n_.value, ast.Name) and fn_.params and n_.value.id == fn_.params[0]:
                            return True
                return False
            if any(has(b) for b in fam):
                return True
            if not any(has(b) for b in subs) and all(x in ('object',) for x in self.cls.all_ext_bases()):
                return False
            return None
        if isinstance(a0, ast.Name):
            k = self._find_class(a0.id)
        elif isinstance(a0, ast.Attribute) and isinstance(a0.value, ast.Name) and a0.value.id in self.repo.modules:
            k = self.repo.modules[a0.value.id].classes.get(a0.attr)
        if k is None:
            return None
        for b in k.mro():
            if name in b.attrs or name in b.methods or name in b.setters:
                return True
        if all(x in ('object',) for x in k.all_ext_bases()):
            return False
        return None

    def _split_truth(self, txt: str, s: SymState):
        """the truth of an already evaluated value, as path conditions over its atoms: a boolean that reached the test
        through a local (``ok = a and not b`` ... ``if ok:``) constrains the path exactly like the test ``a and not b``"""
        while txt.startswith('bool(') and txt.endswith(')') and _balanced(txt[5:-1]):
            txt = txt[5:-1]     # truth of bool(x) is truth of x
        e = None
        if ' and ' in txt or ' or ' in txt or txt.startswith('not ') or txt.startswith('(not '):
            try:
                e = ast.parse(txt, mode='eval').body
            except SyntaxError:
                e = None

        def go(x, st):
            if isinstance(x, ast.UnaryOp) and isinstance(x.op, ast.Not):
                t, f = go(x.operand, st)
                return f, t
            if isinstance(x, ast.BoolOp):
                t_all, f_all = [], []
                cur = [st]
                is_and = isinstance(x.op, ast.And)
                for v in x.values:
                    nxt = []
                    for c in cur:
                        t, f = go(v, c)
                        if is_and:
                            f_all.extend(f)
                            nxt.extend(t)
                        else:
                            t_all.extend(t)
                            nxt.extend(f)
                    cur = nxt
                return (cur, f_all) if is_and else (t_all, cur)
            if isinstance(x, ast.Call) and isinstance(x.func, ast.Name) and x.func.id == 'bool' and len(x.args) == 1 \
                    and not x.keywords:
                return go(x.args[0], st)
            if isinstance(x, ast.Constant):
                return ([st], []) if x.value else ([], [st])
            a = ast.unparse(x)
            return atom(a, st)

        def atom(a, st):
            # a value without calls that was already tested on this path has the truth it had then (a term with a call
            # may denote another call of the same text: ``fp.read(n)`` in the next iteration)
            if '(' not in a:
                if ('+' + a) in st.conds:
                    return [st], []
                if ('-' + a) in st.conds:
                    return [], [st]
            return [st.add_cond('+' + a)], [st.add_cond('-' + a)]
        if e is None or not isinstance(e, (ast.BoolOp, ast.UnaryOp)):
            return atom(txt, s)
        return go(e, s)

    def loop_bind(self, st: ast.For, s: SymState):
        it = self.term(st.iter, s)
        item = 'ITEM(%s)' % it
        conds = []
        mapped = _comprehension_item(it)
        if mapped is not None:
            # iterating ``[E for v in S if C]``: the item is E at an item of S that passes C
            item, conds = mapped
        s1 = self.assign(st.target, None, item, s)
        for c_ in conds:
            s1 = s1.add_cond('+' + c_)
        return [s1.add_cond('+iter:%s' % self._loop_key(st))]

    def loop_exhausted(self, st: ast.For, s: SymState):
        return [s]

    UNROLL_MAX = 24

    def unroll_items(self, st: ast.For, s: SymState):
        """a for loop over a tuple / list display (after substitution) or over a class / module constant that folds to a
        short sequence of constants: its items as terms"""
        if getattr(self, 'no_unroll', False):
            return None
        t = self.term(st.iter, s)
        try:
            e = ast.parse(t, mode='eval').body
        except SyntaxError:
            return None
        if isinstance(e, (ast.Tuple, ast.List)) and not any(isinstance(x, ast.Starred) for x in e.elts):
            if len(e.elts) > self.UNROLL_MAX:
                return None
            return [ast.unparse(x) for x in e.elts]
        if isinstance(e, (ast.Name, ast.Attribute)):
            ch = attr_chain(e)
            if ch and ch[0] in ('self', 'cls') and self.cls is not None and len(ch) == 2:
                # a class attribute read through the instance: only constant if no subclass re-defines it
                if any(ch[1] in k.attrs for k in self.repo.subclasses(self.cls) if k.key != self.cls.key):
                    return None
                # ... and no method re-binds it on the instance / class
                for k in self.repo.subclasses(self.cls) + self.cls.mro():
                    for fn_ in list(k.methods.values()) + list(k.setters.values()):
                        for n_ in ast.walk(fn_.node):
                            if isinstance(n_, ast.Attribute) and n_.attr == ch[1] and isinstance(n_.ctx, (ast.Store, ast.Del)):
                                return None
            try:
                v = self.repo.fold(e, self.mod, self.cls)
            except NotConst:
                return None
            except Exception:
                return None
            if isinstance(v, (tuple, list)) and len(v) <= self.UNROLL_MAX and all(_plain_const(x) for x in v):
                return [repr(x) for x in v]
        return None

    def bind_item(self, st: ast.For, s: SymState, item: str):
        return [self.assign(st.target, None, item, s)]

    def _loop_key(self, st) -> str:
        """``L<line>`` -- or, when statements moved to a call site by inlining put several loops on one line, ``L<line>_<k>``"""
        keys = getattr(self, '_loop_keys', None)
        if keys is None:
            keys = self._loop_keys = {}
            by_line: Dict[int, List[ast.AST]] = {}
            for n in ast.walk(self.f.node):
                if isinstance(n, (ast.For, ast.While, ast.AsyncFor)):
                    by_line.setdefault(n.lineno, []).append(n)
            for line, nodes in by_line.items():
                for k, n in enumerate(nodes):
                    keys[id(n)] = 'L%d' % line if k == 0 else 'L%d_%d' % (line, k)
        return keys.get(id(st), 'L%d' % st.lineno)

    def loop_enter(self, st, s: SymState):
        mark = Event('loop', self._loop_key(st), (str(len(s.conds)),), (), (), st.lineno, s.conds, self.f.key)
        self.log.append((mark, s))
        self.loops.append((self, st, s))
        return [SymState(s.env, s.heap, s.conds, s.trail + (mark,), s.ret)]

    def after_finally(self, returning: SymState, after: SymState) -> SymState:
        return after.with_ret(returning.ret)

    def loop_leave(self, st, s: SymState):
        ex = Event('loopexit', self._loop_key(st), (), (), (), st.lineno, s.conds, self.f.key)
        return [SymState(s.env, s.heap, s.conds, s.trail + (ex,), s.ret)]

    def back_edge(self, st, s: SymState):
        """Widening: the events and path conditions of completed iterations are
        replaced by one 'iterated' marker, so a state after the loop shows the events
        before the loop, the marker, and the events of the last (partial) iteration.
        Per-iteration rules analyse the loop body on its own."""
        idx = None
        for i in range(len(s.trail) - 1, -1, -1):
            e = s.trail[i]
            if e.kind == 'loop' and e.callee == self._loop_key(st) and e.fn == self.f.key:
                idx = i
                break
        if idx is None:
            return [s]
        n = int(s.trail[idx].args[0])
        it = Event('iterated', self._loop_key(st), (), (), (), st.lineno, s.conds[:n], self.f.key)
        # variables re-bound in the body (plain assignment) become loop-carried unknowns
        env = dict(s.env)
        for node in ast.walk(st):
            if isinstance(node, ast.Assign):
                for t in node.targets:
                    for nm in ([t] if isinstance(t, ast.Name) else [x for x in ast.walk(t) if isinstance(x, ast.Name)]):
                        phi = 'PHI_%s_%s' % (nm.id, self._loop_key(st))
                        if isinstance(nm.ctx, ast.Store) and nm.id in env and env[nm.id] != phi \
                                and (phi in env[nm.id] or len(env[nm.id]) > 160):
                            env[nm.id] = phi
        return [SymState(frozenset(env.items()), s.heap, s.conds[:n], s.trail[:idx + 1] + (it,), s.ret)]

    def handler_bind(self, h: ast.ExceptHandler, s: SymState, exc: str):
        s1 = s.add_cond('exc:%s@L%d' % (exc, h.lineno))
        if h.name:
            s1 = s1.set(h.name, 'EXC_%s' % h.name)
        return [s1]

    def with_enter(self, item: ast.withitem, s: SymState):
        outs = []
        for s1 in self._eval(item.context_expr, s):
            if item.optional_vars is not None:
                ce = item.context_expr
                if isinstance(ce, ast.Call) and len(ce.args) == 1 and not ce.keywords and not isinstance(ce.args[0], ast.Starred) \
                        and ast.unparse(ce.func) in ('contextlib.closing', 'closing', 'contextlib.nullcontext', 'nullcontext'):
                    # library fact: closing(x).__enter__() and nullcontext(x).__enter__() return x itself
                    v = self.term(ce.args[0], s1)
                else:
                    v = 'ENTER(%s)' % self.term(ce, s1)
                s1 = self.assign(item.optional_vars, None, v, s1)
            outs.append(s1.with_ret(None))
        return outs

    def raises(self, node, s: SymState):
        if self.raises_of is None:
            return []
        return sorted(set(self.raises_of(node, self, s)))

    def raises_iter(self, st, s: SymState):
        if self.raises_of is None:
            return []
        fake = ast.Call(func=ast.Name(id='__next__', ctx=ast.Load()), args=[st.iter], keywords=[])
        ast.copy_location(fake, st)
        ast.fix_missing_locations(fake)
        return sorted(set(self.raises_of(fake, self, s)))

    def nested_def(self, st, s):
        return [s]


def _plain_const(x) -> bool:
    if isinstance(x, (int, str, bytes, float, bool)) or x is None:
        return True
    if isinstance(x, (tuple, list)):
        return all(_plain_const(y) for y in x)
    return False


def _never_none(term: str) -> bool:
    """a term whose value cannot be None: a literal, a container display, a slice, arithmetic, an object token"""
    if is_token(term) or _TOKEN2_RE.match(term):
        return True
    try:
        e = ast.parse(term, mode='eval').body
    except SyntaxError:
        return False
    if isinstance(e, ast.Constant):
        return e.value is not None
    if isinstance(e, (ast.Tuple, ast.List, ast.Dict, ast.Set, ast.BinOp, ast.JoinedStr, ast.Compare, ast.ListComp, ast.DictComp)):
        return True
    if isinstance(e, ast.Subscript) and isinstance(e.slice, ast.Slice):
        return True
    if isinstance(e, ast.Call):
        # constructing an object (``uid.UID(x)``, ``PContextDef(..)``): class names are capitalised by convention here
        last = e.func.attr if isinstance(e.func, ast.Attribute) else e.func.id if isinstance(e.func, ast.Name) else ''
        if last[:1].isupper():
            return True
    return False


_TOKEN2_RE = __import__('re').compile(r'^[A-Z]+_L\d+_\d+$')


def _none_test_of_local(test: ast.expr, s: SymState):
    """(name, True for ``is None`` / False for ``is not None``) when the test compares a local with None"""
    if not (isinstance(test, ast.Compare) and len(test.ops) == 1 and isinstance(test.ops[0], (ast.Is, ast.IsNot, ast.Eq, ast.NotEq))):
        return None
    l, r = test.left, test.comparators[0]
    other = l if isinstance(r, ast.Constant) and r.value is None else r if isinstance(l, ast.Constant) and l.value is None else None
    if not isinstance(other, ast.Name) or s.get(other.id) is None:
        return None
    return other.id, isinstance(test.ops[0], (ast.Is, ast.Eq))


def _decide_none_test(test: ast.expr, client: 'SymClient', s: SymState) -> Optional[bool]:
    """``x is None`` / ``x is not None`` / ``x == None`` where the term of x is the constant None or cannot be None
    (the value an inlined helper returned on this path): the branch is decided, the other one is infeasible."""
    if not (isinstance(test, ast.Compare) and len(test.ops) == 1 and isinstance(test.ops[0], (ast.Is, ast.IsNot, ast.Eq, ast.NotEq))):
        return None
    l, r = test.left, test.comparators[0]
    if isinstance(r, ast.Constant) and r.value is None:
        other = l
    elif isinstance(l, ast.Constant) and l.value is None:
        other = r
    else:
        return None
    if not isinstance(other, ast.Name) or s.get(other.id) is None:
        return None     # only locals carry path-specific values
    t = s.get(other.id)
    positive = isinstance(test.ops[0], (ast.Is, ast.Eq))
    if t == 'None':
        return positive
    # the same stored value was compared with None before on this path (in this function, or in the helper it came back from)
    nm = s.get('?n:' + other.id)
    if nm in ('+', '-'):
        return (nm == '+') == positive
    if s.get('?nn:' + other.id) == '1' and not any(
            isinstance(n_, ast.Name) and n_.id == other.id and isinstance(n_.ctx, (ast.Store, ast.Del)) for n_ in ast.walk(client.f.node)):
        return not positive
    if _never_none(t):
        return not positive
    # an attribute of that very value was read on this path (``x.name in ...`` held or failed): it is not None
    if t and not t.startswith(('+', '-')) and any((t + '.') in c_[1:] for c_ in s.conds if c_[:1] in '+-'
                                                  and _attr_read_of(c_[1:], t)):
        return not positive
    return None


def _attr_read_of(cond: str, term: str) -> bool:
    """does the condition text read an attribute of exactly ``term`` (not of a longer term that merely ends the same way)?"""
    i = cond.find(term + '.')
    while i >= 0:
        before = cond[i - 1] if i > 0 else ' '
        if not (before.isalnum() or before in '_.)]'):
            return True
        i = cond.find(term + '.', i + 1)
    return False


def _yields_in(e: ast.AST) -> List[ast.Yield]:
    out: List[ast.Yield] = []

    def walk(n):
        if isinstance(n, (ast.FunctionDef, ast.AsyncFunctionDef, ast.Lambda)):
            return
        for ch in ast.iter_child_nodes(n):
            walk(ch)
        if isinstance(n, ast.Yield):
            out.append(n)
    walk(e)
    return out


def simplify_term(t: str) -> str:
    try:
        e = ast.parse(t, mode='eval').body
    except SyntaxError:
        return t
    e2 = _Simplify().visit(e)
    ast.fix_missing_locations(e2)
    return ast.unparse(e2)


def _paren(t: str) -> str:
    return t if t.isidentifier() or t.endswith(')') or t.endswith(']') else '(%s)' % t


def _is_generator(fnode) -> bool:
    for n in ast.walk(fnode):
        if isinstance(n, (ast.Yield, ast.YieldFrom)):
            # not inside a nested def/lambda
            return True
    return False


def conds_before(ev: Event) -> Tuple[str, ...]:
    return ev.conds


# --------------------------------------------------------------------------- helpers for rules

def loop_body_outcomes(client: SymClient, loop: ast.AST):
    """Run one iteration of ``loop`` (a For/While node of the analysed function) from every
    state in which the loop was entered; returns flow.Outcomes for the body alone.  Per-iteration
    rules (exactly one response per match, ...) use this instead of the widened final states."""
    entries = [st for ev, st in client.log if ev.kind == 'loop' and ev.line == loop.lineno]
    if not entries:
        raise AnalysisError('loop at line %d was never entered by the analysis' % loop.lineno)
    # a loop inside an inlined helper is interpreted by the client that entered it (its function, class and depth)
    for cl_, node_, _st in getattr(client, 'loops', []):
        if node_ is loop:
            client = cl_
            break
    flow = Flow(client)
    states = set()
    for st in entries:
        st = SymState(st.env, st.heap, st.conds, (), None)
        # loop-carried counters: at the start of an arbitrary iteration their value is PRE_<name>
        for n in ast.walk(loop):
            if isinstance(n, ast.AugAssign) and isinstance(n.target, ast.Name):
                st = st.set(n.target.id, 'PRE_' + n.target.id)
        if isinstance(loop, ast.For):
            states |= set(client.loop_bind(loop, st))
        else:
            states.add(st)
    def run_once(sts):
        if isinstance(loop, ast.While):
            t, f, exc = flow.cond(loop.test, sts)
            sts = t
        return flow.run(loop.body, sts)
    o = run_once(states)
    # fields of objects created before the loop that an iteration updates (counters kept in a helper object) are
    # loop-carried as well: at the start of an arbitrary iteration their value is PRE_<object>.<field>
    carried = set()
    for st in states:
        before = {(t_, f_): v_ for t_, f_, v_ in st.heap if is_token(t_)}
        for out_s in list(o.fall) + list(o.cont) + list(o.brk) + [x for x, _r in o.ret]:
            for t_, f_, v_ in out_s.heap:
                if is_token(t_) and (t_, f_) in before and before[(t_, f_)] != v_ and v_.startswith('AUG_%s(' % f_):
                    carried.add((t_, f_))
    if carried:
        saved_log = list(client.log)
        states = {_with_fields(st, {(t_, f_): 'PRE_%s.%s' % (t_, f_) for t_, f_ in carried}) for st in states}
        o = run_once(states)
    return o


def _with_fields(st: SymState, fields) -> SymState:
    for (t_, f_), v_ in fields.items():
        st = st.set_field(t_, f_, v_)
    return st


def _cond_cmp(conds, a: str, b: str, pos_op: str, fold=None) -> bool:
    neg_op = '!=' if pos_op == '==' else '=='
    if any(c in conds for c in ('+%s %s %s' % (a, pos_op, b), '+%s %s %s' % (b, pos_op, a), '-%s %s %s' % (a, neg_op, b), '-%s %s %s' % (b, neg_op, a))):
        return True
    if fold is None:
        return False
    # by value: ``a == 1`` says ``a == Cls.command_field`` when that constant folds to 1 (an IntEnum member, a named constant)
    try:
        vb = fold(ast.parse(b, mode='eval').body)
    except SyntaxError:
        return False
    if vb is None:
        return False
    for c in conds:
        pol, txt = c[:1], c[1:]
        for op_, want_pol in ((pos_op, '+'), (neg_op, '-')):
            if pol != want_pol:
                continue
            for l_, r_ in ((a + ' ' + op_ + ' ', None), (None, ' ' + op_ + ' ' + a)):
                other = txt[len(l_):] if l_ is not None and txt.startswith(l_) else txt[:-len(r_)] if r_ is not None and txt.endswith(r_) else None
                if other is None:
                    continue
                try:
                    vo = fold(ast.parse(other, mode='eval').body)
                except SyntaxError:
                    continue
                if vo is not None and vo == vb and type(vo) is not bool:
                    return True
    return False


def cond_eq(conds, a: str, b: str, fold=None) -> bool:
    """do the path conditions assert ``a == b`` (written either way round, positively or as a refuted ``!=``)?  With ``fold`` the
    other side of a comparison with ``a`` may be any expression that folds to the same constant as ``b``."""
    return _cond_cmp(conds, a, b, '==', fold)


def cond_ne(conds, a: str, b: str, fold=None) -> bool:
    return _cond_cmp(conds, a, b, '!=', fold)


def iteration_paths(client: SymClient, loop: ast.AST):
    """[(state, 'next' | 'stop')] for one iteration of ``loop``: a path that reaches the end of the body (or a
    ``continue``) goes on only if the loop's own test holds in the state it ends in -- so ``while True: ... if c: break``
    and ``while flag: ... flag = not c`` give the same classification, with the deciding condition on the path."""
    o = loop_body_outcomes(client, loop)
    for cl_, node_, _st in getattr(client, 'loops', []):
        if node_ is loop:
            client = cl_
            break
    out = []
    ends = list(o.fall) + list(o.cont)
    if isinstance(loop, ast.While):
        flow = Flow(client)
        for s_ in ends:
            t, f, _exc = flow.cond(loop.test, {s_})
            out.extend((x, 'next') for x in t)
            out.extend((x, 'stop') for x in f)
    else:
        out.extend((x, 'next') for x in ends)
    out.extend((x, 'stop') for x in o.brk)
    out.extend((x, 'stop') for x, _r in o.ret)
    return out, o


class _ExpandItems(ast.NodeTransformer):
    def visit_Subscript(self, node):
        node = self.generic_visit(node)
        v = node.value
        if isinstance(v, ast.Call) and isinstance(v.func, ast.Name) and v.func.id == 'ITEM' and len(v.args) == 1 \
                and isinstance(v.args[0], (ast.GeneratorExp, ast.ListComp)) and isinstance(node.slice, ast.Constant) \
                and isinstance(node.slice.value, int):
            g = v.args[0]
            if len(g.generators) == 1 and isinstance(g.elt, ast.Tuple) and not g.generators[0].ifs \
                    and isinstance(g.generators[0].target, ast.Name) and node.slice.value < len(g.elt.elts):
                tgt = g.generators[0].target.id
                item = ast.Call(func=ast.Name(id='ITEM', ctx=ast.Load()), args=[g.generators[0].iter], keywords=[])

                class _R(ast.NodeTransformer):
                    def visit_Name(self_inner, n):
                        return copy.deepcopy(item) if n.id == tgt else n
                return _R().visit(copy.deepcopy(g.elt.elts[node.slice.value]))
        return node


def expand_items(term: str) -> str:
    """``ITEM((a.x, a.y) for a in S)[1]`` -> ``ITEM(S).y`` (elements of a tuple-building generator)."""
    try:
        e = ast.parse(term, mode='eval').body
    except SyntaxError:
        return term
    e2 = _ExpandItems().visit(e)
    ast.fix_missing_locations(e2)
    return ast.unparse(e2)


def inline_pure_calls(term: str, repo: Repo, module: str, depth: int = 0) -> str:
    """Replace calls of module-level helper functions whose body is a single ``return <expr>`` by that
    expression (parameters substituted), so that a trivial helper does not hide the value it computes."""
    if depth > 3:
        return term
    try:
        e = ast.parse(term, mode='eval').body
    except SyntaxError:
        return term
    m = repo.modules.get(module)
    if m is None:
        return term
    changed = [False]

    class _I(ast.NodeTransformer):
        def visit_Call(self, node):
            node = self.generic_visit(node)
            if isinstance(node.func, ast.Name) and node.func.id in m.functions and not node.keywords:
                fi = m.functions[node.func.id]
                body = body_without_docstring(fi.node)
                if len(body) == 1 and isinstance(body[0], ast.Return) and body[0].value is not None \
                        and len(fi.params) == len(node.args):
                    env = dict(zip(fi.params, node.args))

                    class _S(ast.NodeTransformer):
                        def visit_Name(self_inner, n):
                            return copy.deepcopy(env[n.id]) if n.id in env and isinstance(n.ctx, ast.Load) else n
                    changed[0] = True
                    return _S().visit(copy.deepcopy(body[0].value))
            return node
    e2 = _I().visit(e)
    ast.fix_missing_locations(e2)
    out = ast.unparse(e2)
    return inline_pure_calls(out, repo, module, depth + 1) if changed[0] and out != term else out
