#!/usr/bin/env python3
"""Re-run the checks against every stored seeded change: tools/reseed.py [ids...]

For each /verif/seeded/<id>/patch.diff: copy /repo's package to a scratch directory, apply the patch,
run the check of the property the seed breaks (and report every other check that fires).  A seed that
its property's check does not report with exit 1 is printed as MISSED."""
import json
import os
import shutil
import subprocess
import sys
import tempfile
from concurrent.futures import ThreadPoolExecutor

PY = '/venv/bin/python'
VERIF = os.path.dirname(os.path.dirname(os.path.abspath(__file__)))


def one(sid):
    d = os.path.join(VERIF, 'seeded', sid)
    meta = json.load(open(os.path.join(d, 'meta.json')))
    prop = meta.get('property') or sid[:3]
    tmp = tempfile.mkdtemp(prefix='reseed_')
    try:
        shutil.copytree('/repo/pynetdicom2', os.path.join(tmp, 'pynetdicom2'))
        p = subprocess.run(['patch', '-p1', '-s', '-i', os.path.join(d, 'patch.diff')], cwd=tmp, capture_output=True, text=True)
        if p.returncode != 0:
            return sid, prop, 'PATCH-FAILED', p.stdout[-200:]
        env = dict(os.environ, VERIF_REPO=tmp, VERIF_EVIDENCE_DIR=os.path.join(tmp, 'ev'))
        fired = {}
        props = ['C%02d' % i for i in range(1, 21)] if '--all' in sys.argv else [prop]
        for pid in props:
            r = subprocess.run([PY, '-m', 'pnd_static.check', '--property', pid], cwd=VERIF, env=env, capture_output=True, text=True)
            if r.returncode != 0:
                rules = sorted({ln.split('rule ')[1].split()[0] for ln in r.stdout.splitlines() if '  rule ' in ln})
                fired[pid] = (r.returncode, rules or r.stdout.splitlines()[:1])
        ok = fired.get(prop, (0,))[0] == 1
        if '--update-meta' in sys.argv and '--all' in sys.argv:
            meta['checks_that_fire'] = {k: v[1] for k, v in sorted(fired.items()) if v[0] == 1}
            json.dump(meta, open(os.path.join(d, 'meta.json'), 'w'), indent=1)
        anyfire = any(v[0] == 1 for v in fired.values())
        return sid, prop, 'caught' if ok else ('other-check' if anyfire else 'MISSED'), fired
    finally:
        shutil.rmtree(tmp, ignore_errors=True)


def main():
    ids = [a for a in sys.argv[1:] if not a.startswith('--')] or sorted(os.listdir(os.path.join(VERIF, 'seeded')))
    with ThreadPoolExecutor(16) as ex:
        res = list(ex.map(one, ids))
    bad = 0
    for sid, prop, verdict, fired in res:
        print('%-6s %-4s %-8s %s' % (sid, prop, verdict, fired))
        bad += verdict == 'MISSED'
    print('%d seeds, %d not caught' % (len(res), bad))
    sys.exit(1 if bad else 0)


if __name__ == '__main__':
    main()
